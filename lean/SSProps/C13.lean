import SSModel.Options
import SSModel.Gen.Consts
/-!
C13 — extraction options are wscoped to their call tree and thread; stubs honoured.
Property theorems only.  Model: `SSModel/Options.lean`.
-/
open SS.Options

/-! #### restore: a call leaves the cell as it found it, also when it ends in an exception -/
mutual
  theorem C13_restore_call : ∀ (a : Call) (c : Cell), (evalCall a c).cell = c
    | .extract _ _ _, _ => by simp [evalCall]
    | .outermost _ _ _ _, _ => by simp [evalCall]
    | .child ft hooks, c => by
        unfold evalCall
        cases h : c.rc with
        | none => simp
        | some rc =>
          by_cases h2 : (ft && !rc) = true
          · simp [h2]
          · simp [h2]; exact C13_restore_hooks hooks c
    | .fill hook, c => by
        unfold evalCall
        cases h : c.wc with
        | none => simp
        | some _ => simp; exact C13_restore_acts hook c
    | .observe, _ => by simp [evalCall]
    | .raise, _ => by simp [evalCall]
    | .abort, _ => by simp [evalCall]
    | .catch body, c => by simp [evalCall]; exact C13_restore_acts body c
    | .gcm hook, c => by
        unfold evalCall
        cases h : c.rc with
        | none => simp
        | some rc =>
          by_cases h2 : (c.wc == some true) = true
          · simp [h2]; exact C13_restore_acts hook c
          · simp [h2]
  theorem C13_restore_acts : ∀ (h : Acts) (c : Cell), (evalActs h c).cell = c
    | .nil, _ => by simp [evalActs]
    | .cons a rest, c => by
        unfold evalActs
        by_cases hr : ((evalCall a c).raised || (evalCall a c).aborted) = true
        · simp [hr]; exact C13_restore_call a c
        · simp [hr]
          rw [C13_restore_call a c]; exact C13_restore_acts rest c
  theorem C13_restore_hooks : ∀ (hs : Hooks) (c : Cell), (evalHooks hs c).cell = c
    | .nil, _ => by simp [evalHooks]
    | .cons h rest, c => by
        unfold evalHooks
        by_cases ha : (evalActs h c).aborted = true
        · simp [ha]; exact C13_restore_acts h c
        · simp [ha]
          rw [C13_restore_acts h c]; exact C13_restore_hooks rest c
end

/-- Headline form: any top-level call, from any starting cell (in particular the unset one). -/
theorem C13_restore (a : Call) (c : Cell) : (evalCall a c).cell = c := C13_restore_call a c

/-! #### observed: every hook action directly under `extract wc rc` sees exactly `(wc, rc)` -/

/-- All `obs` events of a hook list evaluated under `c`, when no nested `extract` intervenes, carry `c`.
We state it through the event stream: every `obs` that is not between an `enter`/`leave` pair sees
the cell of the innermost enclosing `enter`.  `wscoped` replays the event stream with a stack. -/
def wscoped : List Event → List Cell → Bool
  | [], _ => true
  | .enter c :: es, st => wscoped es (c :: st)
  | .leave c :: es, _ :: st => (match st with | [] => true | top :: _ => c == top) && wscoped es st
  | .leave _ :: _, [] => false
  | .obs c :: es, top :: st => (c == top) && wscoped es (top :: st)
  | .obs _ :: _, [] => false
  | _ :: es, st => wscoped es st

/- Events produced under a cell `c` are well-wscoped for any stack whose top is `c`, and leave that
stack unchanged; phrased as: appending more well-wscoped events stays well-wscoped. -/
mutual
  theorem wscoped_call : ∀ (a : Call) (c : Cell) (st : List Cell) (k : List Event),
      wscoped k (c :: st) = true → wscoped ((evalCall a c).events ++ k) (c :: st) = true
    | .extract wc rc hooks, c, st, k, hk => by
        simp only [evalCall, List.append_assoc, List.cons_append, List.nil_append, wscoped]
        apply wscoped_hooks hooks ⟨some wc, some rc⟩ (c :: st)
        simp [wscoped, hk]
    | .outermost wc rc hooks nf, c, st, k, hk => by
        simp only [evalCall, List.append_assoc, List.cons_append, List.nil_append, wscoped]
        apply wscoped_hooks hooks ⟨some wc, some rc⟩ (c :: st)
        simp [wscoped, hk]
    | .child ft hooks, c, st, k, hk => by
        unfold evalCall
        cases h : c.rc with
        | none => simpa [wscoped] using hk
        | some rc =>
          by_cases h2 : (ft && !rc) = true
          · simp only [h2, if_true]; simpa [wscoped] using hk
          · simp only [h2]
            simp only [Bool.false_eq_true, if_false, List.cons_append, List.nil_append, wscoped]
            exact wscoped_hooks hooks c st k hk
    | .fill hook, c, st, k, hk => by
        unfold evalCall
        cases h : c.wc with
        | none =>
          simp only [List.append_assoc, List.cons_append, List.nil_append, wscoped]
          apply wscoped_acts hook ⟨some true, some false⟩ (c :: st)
          simp [wscoped, hk]
        | some _ => simp only; exact wscoped_acts hook c st k hk
    | .observe, c, st, k, hk => by simp [evalCall, wscoped, hk]
    | .raise, c, st, k, hk => by simpa [evalCall] using hk
    | .abort, c, st, k, hk => by simpa [evalCall] using hk
    | .catch body, c, st, k, hk => by
        simp only [evalCall, List.append_assoc]
        apply wscoped_acts body c st
        split
        · simpa [wscoped] using hk
        · simpa using hk
    | .gcm hook, c, st, k, hk => by
        unfold evalCall
        cases h : c.rc with
        | none => simpa [wscoped] using hk
        | some rc =>
          by_cases h2 : (c.wc == some true) = true
          · simp only [h2, if_true]
            simp only [List.cons_append, List.nil_append, wscoped]
            exact wscoped_acts hook c st k hk
          · simp only [h2]
            simpa [wscoped] using hk
  theorem wscoped_acts : ∀ (h : Acts) (c : Cell) (st : List Cell) (k : List Event),
      wscoped k (c :: st) = true → wscoped ((evalActs h c).events ++ k) (c :: st) = true
    | .nil, c, st, k, hk => by simpa [evalActs] using hk
    | .cons a rest, c, st, k, hk => by
        unfold evalActs
        by_cases hr : ((evalCall a c).raised || (evalCall a c).aborted) = true
        · simp only [hr, if_true]; exact wscoped_call a c st k hk
        · simp only [hr]
          simp only [Bool.false_eq_true, if_false, List.append_assoc]
          apply wscoped_call a c st
          rw [C13_restore_call a c]
          exact wscoped_acts rest c st k hk
  theorem wscoped_hooks : ∀ (hs : Hooks) (c : Cell) (st : List Cell) (k : List Event),
      wscoped k (c :: st) = true → wscoped ((evalHooks hs c).events ++ k) (c :: st) = true
    | .nil, c, st, k, hk => by simpa [evalHooks] using hk
    | .cons h rest, c, st, k, hk => by
        unfold evalHooks
        by_cases ha : (evalActs h c).aborted = true
        · simp only [ha, if_true]; exact wscoped_acts h c st k hk
        · simp only [ha, Bool.false_eq_true, if_false, List.append_assoc]
          apply wscoped_acts h c st
          rw [C13_restore_acts h c]
          exact wscoped_hooks rest c st k hk
end

/-- **C13_observed**: in the event stream of any call tree started from any cell, every observation
made by a hook equals the options installed by the innermost enclosing `extract` /
`extract_outermost` / outside-extract `fill_context`, and every `leave` restores the options that
were in force before the matching `enter` — at every depth of nesting, raises included. -/
theorem C13_observed (a : Call) (c : Cell) : wscoped (evalCall a c).events [c] = true := by
  have := wscoped_call a c [] [] (by simp [wscoped])
  simpa using this

/-! #### child guard and stub -/

/-- Outside any extraction `extract_child` refuses to run (and changes nothing). -/
theorem C13_child_guard (ft : Bool) (hooks : Hooks) :
    evalCall (.child ft hooks) Cell.unset = ⟨Cell.unset, [.refused], true, false⟩ := by
  simp [evalCall, Cell.unset]

/-- `extract_child(for_task=True)` is a frameless stub exactly when recursion was not requested,
whatever the cell's other half and whatever depth it is reached at. -/
theorem C13_stub (wc : Option Bool) (rc : Bool) (hooks : Hooks) :
    (evalCall (.child true hooks) ⟨wc, some rc⟩).events.head? = some (if rc then .full else .stub) := by
  cases rc <;> simp [evalCall]

theorem C13_stub_runs_nothing (wc : Option Bool) (hooks : Hooks) :
    evalCall (.child true hooks) ⟨wc, some false⟩ = ⟨⟨wc, some false⟩, [.stub], false, false⟩ := by
  simp [evalCall]

/-- `for_task=False` always extracts in full inside an extraction. -/
theorem C13_child_full (c : Cell) (rc : Bool) (h : c.rc = some rc) (hooks : Hooks) :
    (evalCall (.child false hooks) c).events.head? = some .full := by
  simp [evalCall, h]

/-- `fill_context` outside any extraction runs its hooks under `(True, False)` and restores `unset`
even if a hook raises; inside an extraction it runs them under the current options. -/
theorem C13_fill_outside (hook : Acts) :
    (evalCall (.fill hook) Cell.unset).events
      = [.enter ⟨some true, some false⟩] ++ (evalActs hook ⟨some true, some false⟩).events ++ [.leave Cell.unset]
    ∧ (evalCall (.fill hook) Cell.unset).cell = Cell.unset := by
  simp [evalCall, Cell.unset]

theorem C13_fill_inside (hook : Acts) (wc : Bool) (rc : Option Bool) :
    evalCall (.fill hook) ⟨some wc, rc⟩ = evalActs hook ⟨some wc, rc⟩ := by
  simp [evalCall]

/-- What the model takes from the source, re-read on every run: `extract` and `extract_outermost` hand their two
arguments to `push` unchanged, `fill_context` outside an extraction pushes `(True, False)`, and `push` restores the
previous options in a `finally` around its `yield` (so also on BaseExceptions). -/
theorem C13_push_sites :
    SS.Gen.pushForward = ["extract:recurse_child_tasks=recurse_child_tasks", "extract:with_contexts=with_contexts",
      "extract_outermost:recurse_child_tasks=recurse_child_tasks", "extract_outermost:with_contexts=with_contexts",
      "fill_context:recurse_child_tasks=False", "fill_context:with_contexts=True"]
    ∧ SS.Gen.pushShape = "try-yield-finally-restore" := by decide

/-- The convenience spellings, re-read from the source on every run: every `extract(...)` call inside `extract_since`
and `extract_until` (one per kind of `limit`) hands on both of its own option arguments, so what the call-tree theorems
say about `extract` holds for these spellings with the options the caller gave. -/
theorem C13_wrapper_sites :
    SS.Gen.wrapperForward = ["extract_since:recurse_child_tasks=recurse_child_tasks,with_contexts=with_contexts",
      "extract_until:recurse_child_tasks=recurse_child_tasks,with_contexts=with_contexts",
      "extract_until:recurse_child_tasks=recurse_child_tasks,with_contexts=with_contexts"] := by decide

/-- The frame rule `C13_threads` is about one option cell per thread: the options object is a `threading.local` (re-read from
the source on every run), and there is one module-level instance of it. -/
theorem C13_options_thread_local :
    SS.Gen.optionsBases = ["threading.local"] ∧ SS.Gen.optionsInstance = "ExtractOptions()" := by decide

/-! #### BaseExceptions: not contained by an extraction, options restored all the same -/

/-- A hook that raises a BaseException ends the extraction it runs under (the remaining hooks do not run), and the
extraction passes it on — but its `push` has restored the caller's options on the way out. -/
theorem C13_abort_unwinds (wc rc : Bool) (pre rest : Acts) (hs : Hooks) (c : Cell)
    (hpre : (evalActs pre ⟨some wc, some rc⟩).raised = false ∧ (evalActs pre ⟨some wc, some rc⟩).aborted = false) :
    let r := evalCall (.extract wc rc (.cons (Acts.cons (.catch pre) (.cons .abort rest)) hs)) c
    r.aborted = true ∧ r.raised = false ∧ r.cell = c ∧ r.events.getLast? = some (.leave c) := by
  have hc := C13_restore_acts pre ⟨some wc, some rc⟩
  simp [evalCall, evalActs, evalHooks, hpre.1, hpre.2, hc]
  rw [← List.cons_append, List.getLast?_append]; simp

/-- Whatever the tree, and however it ends — normally, by an exception, or by a BaseException unwinding through any
number of nested extractions — the caller's options are back (the `finally` of `push`). -/
theorem C13_restore_also_on_abort (a : Call) (c : Cell) : (evalCall a c).cell = c ∧ wscoped (evalCall a c).events [c] = true :=
  ⟨C13_restore_call a c, C13_observed a c⟩

/-- The scenario of a too-narrow `except`: a nested extraction is aborted, the hook catches the BaseException and
looks at the options again — it sees the outer extraction's. -/
theorem C13_catch_sees_outer (a b a' b' : Bool) (c : Cell) :
    (evalCall (.extract a b (.cons (.cons (.catch (.cons (.extract a' b' (.cons (.cons .observe (.cons .abort .nil)) .nil)) .nil))
        (.cons .observe .nil)) .nil)) c).events
      = [.enter ⟨some a, some b⟩, .enter ⟨some a', some b'⟩, .obs ⟨some a', some b'⟩, .leave ⟨some a, some b⟩, .caught,
         .obs ⟨some a, some b⟩, .leave c] := by
  simp [evalCall, evalActs, evalHooks]

/-- Beneath a generator-based manager the options are still the enclosing extraction's: the contextlib glue goes down
with `extract_child`, which pushes nothing. -/
theorem C13_gcm_keeps_options (wc rc : Bool) (c : Cell) :
    (evalCall (.extract wc rc (.cons (.cons (.gcm (.cons .observe .nil)) .nil) .nil)) c).events
      = [.enter ⟨some wc, some rc⟩, .full] ++ (if wc then [.obs ⟨some wc, some rc⟩] else []) ++ [.leave c] := by
  cases wc <;> simp [evalCall, evalActs, evalHooks]

/-! #### threads: thread-locality as a frame rule, for any number of threads and any schedule -/

theorem globalStep_other (progs : Tid → Strategy) (g : Tid → TState) (t u : Tid) (h : u ≠ t) :
    globalStep progs g t u = g u := by simp [globalStep, h]

theorem globalStep_self (progs : Tid → Strategy) (g : Tid → TState) (t : Tid) :
    globalStep progs g t t = soloStep (progs t) (g t) := by simp [globalStep]

/-- **C13_threads**: under every schedule (any interleaving, any number of threads), the state of
thread `t` — its cell and everything it has read from `current_options` so far — is exactly the state
of `t` running alone for as many steps as the schedule gave it.  Hence its reads, and so its control
flow and what its hooks observe, are those of its sequential run. -/
theorem C13_threads (progs : Tid → Strategy) (g : Tid → TState) (sched : List Tid) (t : Tid) :
    globalRun progs g sched t = soloRun (progs t) (sched.count t) (g t) := by
  induction sched generalizing g with
  | nil => simp [globalRun, soloRun]
  | cons u sched ih =>
    simp only [globalRun, List.foldl_cons] at *
    rw [ih]
    by_cases h : u = t
    · subst h
      simp [globalStep_self, soloRun]
    · have h' : t ≠ u := fun e => h e.symm
      rw [globalStep_other _ _ _ _ h']
      simp [h]

/-! #### non-vacuity -/

/-- A nested extract with other options inside a hook that then raises, followed by another hook. -/
def exampleTree : Call :=
  .extract true false
    (.cons (.cons .observe (.cons (.extract false true (.cons (.cons .observe (.cons .raise .nil)) .nil))
              (.cons .observe (.cons .raise (.cons .observe .nil)))))
     (.cons (.cons (.child true .nil) (.cons .observe .nil)) .nil))

example : (evalCall exampleTree Cell.unset).events =
    [.enter ⟨some true, some false⟩, .obs ⟨some true, some false⟩,
     .enter ⟨some false, some true⟩, .obs ⟨some false, some true⟩, .leave ⟨some true, some false⟩,
     .obs ⟨some true, some false⟩, .stub, .obs ⟨some true, some false⟩, .leave Cell.unset] := by
  decide
