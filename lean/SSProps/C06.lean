import SSModel.Purity
import SSLemmas.Glue
/-!
# C06 — extraction is a pure observation

Proved here, for all inputs: (a) reference counts — holding `k` snapshots of any value stack adds exactly
`k × multiplicity` to each object's count and dropping them restores every count (`C06_refcount_*`);
(b) the helper objects of the type discovery are left closed on the operation list regenerated from
`_glue.py`, and on every list of that shape (`C06_helpers_*`); (c) every piece of state that outlives a call,
as enumerated from the source on this run, is of a class that cannot hold target objects (`C06_state_census`);
(d) a repeated extraction does not change the library's installation state (`C06_repeat_noop`).

NOT proved (measured by the twin runs of harness/props/c06.py): that the C code behind `frame.f_locals`,
`gc.get_referents` and ctypes behaves as modelled, and that the observed program's own behaviour is
unchanged — the model has no interpreter in it.
-/
open SS.Purity SS.Glue


theorem c06_incr_comm (h : Heap) (a b : Nat) : incr (incr h a) b = incr (incr h b) a := by
  funext j; simp only [incr]; split <;> split <;> rfl

theorem c06_hold_incr (h : Heap) (refs : List Nat) (a : Nat) : hold (incr h a) refs = incr (hold h refs) a := by
  induction refs generalizing h with
  | nil => rfl
  | cons r rs ih =>
    simp only [hold, List.foldl_cons] at *
    rw [c06_incr_comm, ih]

theorem c06_decr_incr (h : Heap) (a : Nat) : decr (incr h a) a = h := by
  funext j; simp only [incr, decr]; split <;> simp_all

/-- Dropping a snapshot undoes taking it, whatever the slots hold (repeated objects, NULLs). -/
theorem C06_refcount_restored (h : Heap) (refs : List Nat) : release (hold h refs) refs = h := by
  induction refs generalizing h with
  | nil => rfl
  | cons r rs ih =>
    show release (hold (incr h r) rs) (r :: rs) = h
    rw [c06_hold_incr]
    show release (decr (incr (hold h rs) r) r) rs = h
    rw [c06_decr_incr, ih]

theorem c06_hold_count (h : Heap) (refs : List Nat) (j : Nat) : hold h refs j = h j + refs.count j := by
  induction refs generalizing h with
  | nil => simp [hold]
  | cons r rs ih =>
    show hold (incr h r) rs j = _
    rw [ih, List.count_cons]
    simp only [incr]
    by_cases hj : j = r
    · subst hj; simp; omega
    · have : (r == j) = false := by simp; exact fun e => hj e.symm
      simp [hj, this]

/-- While `k` snapshots are held, each object's count is its baseline plus `k` times the number of slots
that point to it. -/
theorem C06_refcount_held (h : Heap) (refs : List Nat) (k j : Nat) : holdN h refs k j = h j + k * refs.count j := by
  induction k with
  | zero => simp [holdN]
  | succ k ih => simp only [holdN, c06_hold_count, ih]; rw [Nat.succ_mul]; omega

theorem c06_releaseN_holdN (h : Heap) (refs : List Nat) (k : Nat) : releaseN (holdN h refs k) refs k = h := by
  induction k with
  | zero => rfl
  | succ k ih =>
    show releaseN (release (hold (holdN h refs k) refs) refs) refs k = h
    rw [C06_refcount_restored, ih]

/-- Any number of extractions: once all results are dropped every reference count is back at its baseline. -/
theorem C06_refcount_baseline (h : Heap) (none_ : Nat) (slots : List (Option Nat)) (len k : Nat) :
    releaseN (holdN h (readSlots none_ slots len) k) (readSlots none_ slots len) k = h :=
  c06_releaseN_holdN h _ k

/-- Only slots below the valid depth are ever read. -/
theorem C06_reads_below_depth (none_ : Nat) (slots : List (Option Nat)) (len : Nat) :
    (readSlots none_ slots len).length = min len slots.length := by
  simp [readSlots]

example : readSlots 0 [some 5, none, some 5, some 9] 3 = [5, 0, 5] := by decide
example : holdN (fun _ => 1) [5, 0, 5] 2 5 = 5 := by decide

/-- The operation list regenerated from `_glue.py` leaves both helpers closed: no finalizer hook call, no
"coroutine was never awaited", no exception out of the glue function. -/
theorem C06_helpers_closed : helpersClean SS.Gen.helperOps = true := by decide

/-- …and so does every list of that shape: any number of asend/athrow/aclose awaitables created in any order,
then the close under a StopIteration handler. -/
theorem C06_helpers_shape (pre : List String) (hpre : ∀ o ∈ pre, o = "agen.asend" ∨ o = "agen.athrow" ∨ o = "agen.aclose") :
    helpersClean (["agen.create"] ++ pre ++ ["agen.aclose().send:caught", "coro.create", "coro.__await__", "coro.close"]) = true := by
  have key : ∀ (s : HState), s.raised = false → s.agen.exists_ = true → s.agen.state = .created → s.coro = {} →
      ∃ s', (pre.foldlM hstep s) = some s' ∧ s'.raised = false ∧ s'.agen.exists_ = true ∧ s'.agen.state = .created ∧ s'.coro = {} := by
    induction pre with
    | nil => intro s h1 h2 h3 h4; exact ⟨s, rfl, h1, h2, h3, h4⟩
    | cons o os ih =>
      intro s h1 h2 h3 h4
      have ho := hpre o (by simp)
      have hos : ∀ o' ∈ os, o' = "agen.asend" ∨ o' = "agen.athrow" ∨ o' = "agen.aclose" := fun o' h' => hpre o' (by simp [h'])
      rcases ho with rfl | rfl | rfl <;>
      · simp only [List.foldlM_cons, hstep, h1, Bool.false_eq_true, ↓reduceIte, Option.bind_eq_bind, Option.bind_some]
        exact ih hos _ (by simp_all) (by simp_all) (by simp_all) (by simp_all)
  obtain ⟨s', hs', h1, h2, h3, h4⟩ := key { agen := { exists_ := true } } rfl rfl rfl rfl
  simp only [helpersClean, hrun, List.append_assoc, List.foldlM_append, List.foldlM_cons, List.foldlM_nil, hstep,
    Bool.false_eq_true, ↓reduceIte, Option.bind_eq_bind, Option.bind_some, Option.pure_def]
  rw [hs']
  simp [h1, finalizerFires, neverAwaited]

/-- The 0.2.1 defect as a negative example: without the close, the finalizer hook is called. -/
theorem C06_helpers_unclosed_witness :
    helpersClean ["agen.create", "agen.asend", "agen.athrow", "coro.create", "coro.__await__", "coro.close"] = false := by decide

/-- Every piece of state that outlives a call in the package, as enumerated from the source now, is known
and of a class that cannot hold an object of the target. -/
theorem C06_state_census :
    ∀ g ∈ SS.Gen.stateCensus, ∃ c, classify g = some c ∧ c.holdsTargetObjects = false := by decide

/-- A second extraction with no new module in between changes nothing in the installation state: it only
logs that it returned. -/
theorem C06_repeat_noop (st : Static) (g : GState) :
    addGlue st (addGlue st g) = { addGlue st g with log := (addGlue st g).log ++ [.returned] } := by
  have hfold : ∀ (xs : List Mod) (g0 : GState), (xs.foldl (visit st) g0).present = g0.present ∧ (xs.foldl (visit st) g0).cache = g0.cache := by
    intro xs; induction xs with
    | nil => intro g0; exact ⟨rfl, rfl⟩
    | cons x xs ih => intro g0; simp only [List.foldl_cons]; rw [(ih _).1, (ih _).2]; exact ⟨rfl, rfl⟩
  have hc : ((addGlue st g).present.length == (addGlue st g).cache) = true := by
    unfold addGlue; split
    · rename_i h; simpa using h
    · simp [(hfold g.present g).1]
  have gen : ∀ g' : GState, (g'.present.length == g'.cache) = true → addGlue st g' = { g' with log := g'.log ++ [.returned] } := by
    intro g' h; unfold addGlue; rw [if_pos h]
  exact gen _ hc


/-- Finding F15, in the model: a manager bound only to local 0 (count 1).  Unobserved, rebinding the local frees it
(count 0); after an extraction read `f_locals`, the same rebinding leaves count 1 — held by the frame's snapshot. -/
theorem C06_F15_witness :
    let h : Heap := fun j => if j = 7 then 1 else 0
    let f : FrameLocals := { fast := [some 7], snap := none }
    (rebind h f 0).1 7 = 0 ∧ (rebind (touchLocals h f).1 (touchLocals h f).2 0).1 7 = 1 := by decide

/-- …and it is released by the next read of `f_locals` (the next extraction), so nothing accumulates. -/
theorem C06_F15_bounded :
    let h : Heap := fun j => if j = 7 then 1 else 0
    let f : FrameLocals := { fast := [some 7], snap := none }
    let s1 := touchLocals h f
    let s2 := rebind s1.1 s1.2 0
    (touchLocals s2.1 s2.2).1 7 = 0 := by decide

