import SSModel.TaskTree
/-!
C14 — Trio: the extracted tree is isomorphic to the real task tree (partial: the thread-hop half and the
frame layer are decided on real Trio runs, see DESIGN).  Property theorems only; model `SSModel/TaskTree.lean`.
-/
open SS.TaskTree

mutual
  theorem iso_task : ∀ t : Task, readTask (extractTask true t) = t
    | .mk id ns => by simp [extractTask, readTask, iso_nurseries ns]
  theorem iso_nurseries : ∀ ns : Nurseries, readNurseries (extractNurseries true ns) = ns
    | .nil => rfl
    | .cons n rest => by simp [extractNurseries, readNurseries, iso_nursery n, iso_nurseries rest]
  theorem iso_nursery : ∀ n : Nursery, readNursery (extractNursery true n) = n
    | .mk id ts => by simp [extractNursery, readNursery, iso_tasks ts]
  theorem iso_tasks : ∀ ts : Tasks, readTasks (extractChildren true ts) = ts
    | .nil => rfl
    | .cons t rest => by simp [extractChildren, readTasks, iso_task t, iso_tasks rest]
end

/-- **C14_iso**: with `recurse_child_tasks=True` the extracted tree determines the task tree: every open
nursery of every task appears exactly once, in nesting order, with exactly its child tasks as children
(matched by root), recursively — for trees of any depth and fan-out. -/
theorem C14_iso (t : Task) : readTask (extractTask true t) = t := iso_task t

/-- The children of a nursery context are its child tasks, one each, in `child_tasks` order, whether or not
recursion was requested. -/
theorem C14_children_are_child_tasks (recurse : Bool) : ∀ ts : Tasks, (extractChildren recurse ts).roots = ts.ids
  | .nil => rfl
  | .cons (.mk id ns) rest => by
    cases recurse <;> simp [extractChildren, extractTask, XStacks.roots, Tasks.ids, C14_children_are_child_tasks _ rest]

/-- **C14_stub**: without `recurse_child_tasks` every child is a frameless stub carrying only its root. -/
theorem C14_stub : ∀ ts : Tasks, (extractChildren false ts).allStubs = true
  | .nil => rfl
  | .cons (.mk id ns) rest => by simp [extractChildren, XStacks.allStubs, C14_stub rest]

/-! non-vacuity -/
def exTask : Task :=
  .mk 1 (.cons (.mk 10 (.cons (.mk 2 (.cons (.mk 20 (.cons (.mk 4 .nil) .nil)) .nil)) (.cons (.mk 3 .nil) .nil))) (.cons (.mk 11 .nil) .nil))

example : (match extractTask true exTask with | .mk r _ (.cons (.mk o ch) _) => (r, o, ch.roots) | _ => (0, 0, [])) = (1, 10, [2, 3]) := by decide
