import SSModel.Glue
import SSLemmas.Glue
import SSLemmas.GlueConc
/-!
C17 — library glue is installed exactly once, in time, module-provided beats built-in.
Property theorems only; model `SSModel/Glue.lean`, lemmas `SSLemmas/Glue.lean`.
-/
open SS.Glue

/-- **exactly once, never both kinds**: in every history of insertions, removals, re-insertions and
extractions, no module has a glue function (its own or the built-in one) called more than once, and
never one of each: the list of modules for which *any* glue was called has no duplicates. -/
theorem C17_once (st : Static) (ops : List Op) : (ranOf (runOps st ops).log).Nodup :=
  (runOps_inv st ops).nodup

/-- **module-provided beats built-in**: built-in glue is only ever called for a module that does not
provide its own. -/
theorem C17_module_first (st : Static) (ops : List Op) (m : Mod)
    (h : Ev.ranBuiltin m ∈ (runOps st ops).log) : st.hasModGlue m = false := by
  apply (runOps_inv st ops).builtinOnlyIfNoMod
  simp only [builtinRan, List.mem_filterMap]
  exact ⟨_, h, rfl⟩

/-- **a raising glue only warns**: whether or not glue functions raise has no influence on which
glue functions are called, in which order, or on the bookkeeping: the run with raising glue equals
the run without, except for the inserted `warn` events. -/
abbrev quiet := quiet'
abbrev dropWarns := dropWarns'

theorem C17_raise_only_warns (st : Static) (ops : List Op) :
    dropWarns (runOps st ops).log = (runOps (quiet st) ops).log
    ∧ (runOps st ops).modPopped = (runOps (quiet st) ops).modPopped
    ∧ (runOps st ops).builtinPopped = (runOps (quiet st) ops).builtinPopped
    ∧ (runOps st ops).cache = (runOps (quiet st) ops).cache := by
  have := raise_only_warns' st ops GState.init GState.init ⟨rfl, rfl, rfl, rfl, rfl⟩
  exact ⟨this.1, this.2.1, this.2.2.1, this.2.2.2.1⟩

/-- **in time** (partial: histories without removals): when an extraction returns, every module
present in `sys.modules` has had its glue dealt with — its own glue if it has one, else the built-in. -/
theorem C17_in_time_partial (st : Static) (ops : List Op) (hnr : NoRemove ops) :
    ∀ m ∈ (runOps st (ops ++ [.extract])).present, Done st (runOps st (ops ++ [.extract])) m :=
  in_time_no_removal st ops hnr

/-- **F4 (known finding)**: the full statement is false. Remove one module and add a glue-bearing one:
`len(sys.modules)` equals the cached value, the fast path returns, and the new module's glue has not
run when the extraction returns. -/
def f4Static : Static := { hasModGlue := fun _ => false, hasBuiltin := fun m => m = 2, modRaises := fun _ => false, builtinRaises := fun _ => false }
def f4Ops : List Op := [.insert 0, .insert 1, .extract, .remove 0, .insert 2, .extract]

theorem C17_F4_witness :
    (runOps f4Static f4Ops).present.contains 2 = true ∧ (runOps f4Static f4Ops).builtinPopped.contains 2 = false
    ∧ (runOps f4Static f4Ops).log = [.returned, .returned] := by decide

/-- …and one more import makes the length differ again, after which the glue does get installed. -/
theorem C17_F4_recovers : Ev.ranBuiltin 2 ∈ (runOps f4Static (f4Ops ++ [.insert 3, .extract])).log := by decide

/-! non-vacuity -/
def exStatic : Static := { hasModGlue := fun m => m = 1 || m = 3, hasBuiltin := fun m => m = 1 || m = 2,
                           modRaises := fun m => m = 3, builtinRaises := fun _ => false }
example : (runOps exStatic [.insert 1, .insert 2, .extract, .insert 3, .extract, .remove 1, .insert 1, .extract]).log
    = [.ranMod 1, .ranBuiltin 2, .returned, .ranMod 3, .warn 3, .returned, .returned] := by decide

/-! ### Scans during which modules vanish (finding F16, repaired in /repo)

`OpR.extract gone`: an extraction whose scan takes its snapshot and then finds the modules in `gone` removed
(by an earlier module's glue, or by another thread).  The repaired code skips such a name and rescans later. -/

/-- Exactly once / never both kinds also when modules vanish during scans, for every history. -/
theorem C17_once_vanishing (st : Static) (ops : List OpR) : (ranOf (runOpsR st ops).log).Nodup :=
  (runOpsR_inv st ops).nodup

theorem C17_module_first_vanishing (st : Static) (ops : List OpR) (m : Mod)
    (h : Ev.ranBuiltin m ∈ (runOpsR st ops).log) : st.hasModGlue m = false := by
  apply (runOpsR_inv st ops).builtinOnlyIfNoMod
  simp only [builtinRan, List.mem_filterMap]
  exact ⟨_, h, rfl⟩

/-- With nothing vanishing, the extended scan is the plain one (the earlier theorems are instances). -/
theorem C17_vanishing_conservative (st : Static) (g : GState) : addGlueR st g [] = addGlue st g := addGlueR_nil st g

/-- What the code did before the repair: module 1 has both kinds of glue; it vanishes during the first scan
(built-in glue runs for it), is re-inserted, and the next scan runs its own glue as well. -/
def f16Static : Static := { hasModGlue := fun m => m = 1, hasBuiltin := fun m => m = 1, modRaises := fun _ => false, builtinRaises := fun _ => false }
def f16Ops : List OpR := [.insert 0, .insert 1, .extract [1], .insert 1, .insert 2, .extract []]

theorem C17_F16_old_code_witness :
    Ev.ranBuiltin 1 ∈ (f16Ops.foldl (stepOld f16Static) GState.init).log ∧ Ev.ranMod 1 ∈ (f16Ops.foldl (stepOld f16Static) GState.init).log := by
  decide

/-- …and the repaired scan on the same history: only the module's own glue, once, and in time. -/
theorem C17_F16_repaired : (runOpsR f16Static f16Ops).log = [.returned, .ranMod 1, .returned] := by decide

/-! ### Several threads (model `SSModel/GlueConc.lean`)

Any number of threads run the routine as atomic steps (fast-path test, lock, snapshot, the two pops for a name,
the glue call, cache update), interleaved in any order with imports and removals. -/
open SS.GlueConc in
/-- **exactly once under every schedule**: for any number of threads and any interleaving of their steps with
insertions and removals, no module has glue called twice or both kinds of glue — counting the calls already
logged *and* the calls a thread has committed to (popped) but not yet made. -/
theorem C17_conc_once (st : Static) (n : Nat) (sched : List CMove) :
    (ranOf (crun st n sched).g.log ++ pend (crun st n sched).pcs).Nodup :=
  (crun_inv st n sched).nodup

open SS.GlueConc in
theorem C17_conc_once_log (st : Static) (n : Nat) (sched : List CMove) : (ranOf (crun st n sched).g.log).Nodup :=
  (List.nodup_append.mp (crun_inv st n sched).nodup).1

open SS.GlueConc in
/-- **module-provided first under every schedule**. -/
theorem C17_conc_module_first (st : Static) (n : Nat) (sched : List CMove) (m : Mod)
    (h : Ev.ranBuiltin m ∈ (crun st n sched).g.log) : st.hasModGlue m = false := by
  apply (crun_inv st n sched).builtinOnlyIfNoMod
  simp only [builtinRan, List.mem_filterMap]
  exact ⟨_, h, rfl⟩

open SS.GlueConc in
/-- **mutual exclusion**: at most one thread is between taking the snapshot and updating the cache. -/
theorem C17_conc_mutex (st : Static) (n : Nat) (sched : List CMove) (t u : Nat) (p q : PC)
    (hp : (crun st n sched).pcs[t]? = some p) (hq : (crun st n sched).pcs[u]? = some q)
    (sp : scanning p = true) (sq : scanning q = true) : t = u := by
  have h1 := crun_lock st n sched t p hp sp
  have h2 := crun_lock st n sched u q hq sq
  rw [h1] at h2; exact Option.some.inj h2

open SS.GlueConc in
/-- Non-vacuity: two threads racing over a module with both kinds of glue, the second entering while the first is
inside the glue call — one call, the module's own. -/
example :
    let st : Static := { hasModGlue := fun m => m = 1, hasBuiltin := fun m => m = 1, modRaises := fun _ => false, builtinRaises := fun _ => false }
    let sched : List CMove := [.insert 1, .thread 0, .thread 0, .thread 0, .thread 0, .thread 1, .thread 1, .thread 1,
                               .thread 0, .thread 0, .thread 0, .thread 1, .thread 1, .thread 1, .thread 1]
    (crun st 2 sched).g.log = [.ranMod 1, .returned, .returned] := by decide


/-! ### Scans during which modules appear (a glue function importing its plugin; the slip of seeded change C17-m7) -/

/-- **C17_appearing_in_time**: from any state reached by insertions and extractions (cache invariant `TInv`), let any
modules appear *during* a scan — after its snapshot was taken.  Then, when the **next** extraction returns, every module
present, the newcomers included, has had its glue dealt with: the cache holds the size of the visited snapshot, never the
live size, so the next call cannot take the fast path past a newcomer. -/
theorem C17_appearing_in_time (st : Static) (g : GState) (appear : List Mod) (h : SInv st g) (ht : TInv st g) :
    ∀ m ∈ (addGlue st (addGlueA st g appear)).present, Done st (addGlue st (addGlueA st g appear)) m :=
  (addGlue_all_done st _ (addGlueA_inv st g appear h) (addGlueA_tinv st g appear h ht)).2

/-- …and the newcomers are indeed among the modules present then. -/
theorem C17_appearing_present (st : Static) (g : GState) (appear : List Mod) (m : Mod) (hm : m ∈ appear) :
    m ∈ (addGlueA st g appear).present := by
  unfold addGlueA
  split
  · exact insertAll_mem _ _ m hm
  · exact insertAll_mem _ _ m hm

/-- The invariants are kept, so such scans can occur anywhere in a history of insertions and extractions. -/
theorem C17_appearing_keeps_invariants (st : Static) (g : GState) (appear : List Mod) (h : SInv st g) (ht : TInv st g) :
    SInv st (addGlueA st g appear) ∧ TInv st (addGlueA st g appear) :=
  ⟨addGlueA_inv st g appear h, addGlueA_tinv st g appear h ht⟩

/-- With the cache refreshed from the live length instead (seeded change C17-m7), the statement fails: module 0's glue
imports module 1 during the scan; the next extraction returns on the fast path with module 1's glue not run. -/
def appStatic : Static := { hasModGlue := fun m => m = 0 || m = 1, hasBuiltin := fun _ => false, modRaises := fun _ => false, builtinRaises := fun _ => false }
def appStart : GState := step appStatic GState.init (.insert 0)

theorem C17_live_length_witness :
    (addGlue appStatic (addGlueALive appStatic appStart [1])).present.contains 1 = true
    ∧ (addGlue appStatic (addGlueALive appStatic appStart [1])).modPopped.contains 1 = false
    ∧ (addGlue appStatic (addGlueA appStatic appStart [1])).modPopped.contains 1 = true := by decide

example : SInv appStatic appStart ∧ TInv appStatic appStart :=
  ⟨step_inv _ _ _ (init_inv _), ⟨by decide, by intro m hm; simp [appStart, step, GState.init] at hm⟩⟩

/-! ### Modules that are still being imported (finding F44, repaired in /repo) -/

/-- **C17_initializing_once**: scans during which some modules are still being imported keep every invariant of the plain
scan (no glue twice, never both kinds, module glue first) … -/
theorem C17_initializing_once (st : Static) (g : GState) (init : List Mod) (h : SInv st g) : SInv st (addGlueI st g init) :=
  addGlueI_inv st g init h

/-- … and leave such a module completely alone — in particular its built-in glue stays pending, so its own glue can still
take precedence once the import has finished. -/
theorem C17_initializing_untouched (st : Static) (init : List Mod) (g : GState) (m : Mod) (hm : init.contains m = true) :
    visitI st init g m = g := visitI_skips st init g m hm

/-- The history of F44 on the model: module 1 has both kinds of glue (its own is defined by the end of its body); an extraction
happens while it is being imported, another one afterwards.  Repaired scan: its own glue only.  Old scan: the built-in glue at
the first extraction. -/
def f44Static : Static := { hasModGlue := fun m => m = 1, hasBuiltin := fun m => m = 1, modRaises := fun _ => false, builtinRaises := fun _ => false }
def f44Start : GState := step f44Static GState.init (.insert 1)
/-- while the body runs the module has no glue attribute yet: the scan sees only the built-in one -/
def f44During : Static := { f44Static with hasModGlue := fun _ => false }

theorem C17_F44_witness :
    (addGlueIOld f44During f44Start [1]).log = [.ranBuiltin 1, .returned]
    ∧ (addGlue f44Static (addGlueI f44During f44Start [1])).log = [.returned, .ranMod 1, .returned] := by decide
