import SSModel.FillContext
import SSModel.Options
/-!
C11 — context hooks: elaborate, unwrap, re-elaborate until steady state.
Property theorems only; model `SSModel/FillContext.lean` (guard = generated `SS.Gen.fillGuard`).
-/
open SS.Fill

/-- The trace `fill_context` must produce, read off the tables alone: E(o) U(o') E(m) U(m') …, where o' is
the object after elaboration (a hook may replace `obj`), stopping at the first None / PRUNE / raise,
or after `n` rounds. -/
def specTrace (env : Env) : Nat → Mgr → List Call
  | 0, o => [.U o]
  | n+1, o =>
    let e := env.elabCtx o
    match e.raises with
    | some _ => [.E o]
    | none =>
      let o' := (e.setObj).getD o
      match env.unwrapCtx o' with
      | .next m => [.E o, .U o'] ++ specTrace env n m
      | _ => [.E o, .U o']

theorem applyElab_obj (e : ElabC) (c : Ctx) : (applyElab e c).obj = (e.setObj).getD c.obj := by
  unfold applyElab
  cases e.setObj <;> simp <;> (repeat' split) <;> rfl

/-- **C11_trace**: the hooks are called in exactly the alternating order the documentation describes:
elaborate on the original manager, unwrap, elaborate again on each manager an unwrap step produced. -/
theorem C11_trace (env : Env) (n : Nat) (c : Ctx) (tr : List Call) :
    (loop env n c tr).2.1 = tr ++ specTrace env n c.obj := by
  induction n generalizing c tr with
  | zero => unfold loop specTrace; split <;> rfl
  | succ n ih =>
    unfold loop specTrace
    simp only []
    cases hr : (env.elabCtx c.obj).raises with
    | some x => rfl
    | none =>
      simp only []
      rw [applyElab_obj]
      cases hu : env.unwrapCtx ((env.elabCtx c.obj).setObj.getD c.obj) with
      | none => simp
      | prune => simp
      | raise x => simp
      | next m => simp only []; rw [ih]; simp

/-- **C11_replace**: a manager returned by unwrap completely replaces the outer one before the next
elaboration: `obj` is the new manager, `inner_stack` is None and `children` is empty. -/
theorem C11_replace (env : Env) (n : Nat) (c : Ctx) (tr : List Call) (m : Mgr)
    (hr : (env.elabCtx c.obj).raises = none)
    (hu : env.unwrapCtx (applyElab (env.elabCtx c.obj) c).obj = .next m) :
    loop env (n+1) c tr =
      loop env n { applyElab (env.elabCtx c.obj) c with obj := m, innerStack := none, children := [] }
        (tr ++ [.E c.obj] ++ [.U (applyElab (env.elabCtx c.obj) c).obj]) := by
  conv => lhs; unfold loop
  simp only [hr, hu]

/-- **C11_none / C11_prune**: None stops; PRUNE marks the context hidden and stops; in both cases the
fields are those left by the last elaboration. -/
theorem C11_none (env : Env) (n : Nat) (c : Ctx) (tr : List Call)
    (hr : (env.elabCtx c.obj).raises = none) (hu : env.unwrapCtx (applyElab (env.elabCtx c.obj) c).obj = .none) :
    (loop env (n+1) c tr).1 = applyElab (env.elabCtx c.obj) c ∧ (loop env (n+1) c tr).2.2 = .ok := by
  unfold loop; simp [hr, hu]

theorem C11_prune (env : Env) (n : Nat) (c : Ctx) (tr : List Call)
    (hr : (env.elabCtx c.obj).raises = none) (hu : env.unwrapCtx (applyElab (env.elabCtx c.obj) c).obj = .prune) :
    (loop env (n+1) c tr).1 = { applyElab (env.elabCtx c.obj) c with hide := true } ∧ (loop env (n+1) c tr).2.2 = .ok := by
  unfold loop; simp [hr, hu]

/-- **C11_guard**: `fill_context` always terminates; it makes at most `guard` elaborate calls and
`guard + 1` unwrap calls, whatever the hooks return (cycles included). -/
theorem C11_guard_bound (env : Env) (n : Nat) (c : Ctx) (tr : List Call) :
    (loop env n c tr).2.1.length ≤ tr.length + 2 * n + 1 := by
  induction n generalizing c tr with
  | zero => unfold loop; split <;> simp
  | succ n ih =>
    unfold loop
    simp only []
    split
    · simp only [List.length_append, List.length_cons, List.length_nil]; omega
    · split
      · simp only [List.length_append, List.length_cons, List.length_nil]; omega
      · simp only [List.length_append, List.length_cons, List.length_nil]; omega
      · simp only [List.length_append, List.length_cons, List.length_nil]; omega
      · rename_i m _
        have := ih { applyElab (env.elabCtx c.obj) c with obj := m, innerStack := none, children := [] }
            (tr ++ [.E c.obj] ++ [.U (applyElab (env.elabCtx c.obj) c).obj])
        simp only [List.length_append, List.length_cons, List.length_nil] at this ⊢
        omega

/-- A self-cycle (`unwrap_context(m) = m`) ends with the guard error after exactly `guard` rounds. -/
def cycleEnv : Env := { elabCtx := fun _ => {}, unwrapCtx := fun m => .next m }

theorem C11_guard_fires : (fillContext cycleEnv ⟨7, false, none, [], none, false⟩).2.2 = .guard
    ∧ (fillContext cycleEnv ⟨7, false, none, [], none, false⟩).2.1.length = 2 * SS.Gen.fillGuard + 1 := by
  decide +kernel

/-- **C11_gcm_paths**: for a generator-based manager, the frame handed to the registered
`unwrap_context_generator` hook is the same whether it comes from `context.inner_stack.frames[0]`
(not exiting) or from `extract_outermost(mgr.gen)` (exiting) — given C16's
`extract_outermost(x) = extract(x).frames[0]`. -/
theorem C11_gcm_paths (registered : Bool) (frames : List Nat) :
    gcmArg registered (some frames) none = gcmArg registered none frames.head? := by
  cases registered <;> cases frames <;> rfl

/-- **C11_outside**: `fill_context` outside any extraction runs its hooks under exactly the options an
enclosing `extract(with_contexts=True, recurse_child_tasks=False)` would install, and leaves the
thread's options unset afterwards (from the options model of C13). -/
theorem C11_outside (hook : SS.Options.Acts) :
    (SS.Options.evalCall (.fill hook) SS.Options.Cell.unset).events
      = [.enter ⟨some true, some false⟩] ++ (SS.Options.evalActs hook ⟨some true, some false⟩).events ++ [.leave SS.Options.Cell.unset]
    ∧ (SS.Options.evalCall (.extract true false (.cons (.cons (.fill hook) .nil) .nil)) SS.Options.Cell.unset).events
      = [.enter ⟨some true, some false⟩] ++ (SS.Options.evalActs hook ⟨some true, some false⟩).events ++ [.leave SS.Options.Cell.unset] := by
  constructor
  · simp [SS.Options.evalCall, SS.Options.Cell.unset]
  · -- whichever way the hook ends (normally, by an exception, by a BaseException) the events are the same
    simp only [SS.Options.evalCall, SS.Options.evalHooks, SS.Options.evalActs, SS.Options.Cell.unset]
    by_cases h1 : (SS.Options.evalActs hook ⟨some true, some false⟩).raised = true <;>
    by_cases h2 : (SS.Options.evalActs hook ⟨some true, some false⟩).aborted = true <;> simp [h1, h2]

/-! non-vacuity: wrapper 1 (sets children) unwraps to 2 (elaborate replaces obj by 20, sets description), 20 → None -/
def exEnv : Env :=
  { elabCtx := fun m => if m = 1 then { setChildren := some [5], setInner := some 1 } else if m = 2 then { setObj := some 20, setDesc := some 9 } else {}
    unwrapCtx := fun m => if m = 1 then .next 2 else .none }

example : fillContext exEnv ⟨1, false, none, [], none, false⟩
    = (⟨20, false, none, [], some 9, false⟩, [.E 1, .U 1, .E 2, .U 20], .ok) := by decide +kernel
