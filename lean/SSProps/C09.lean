import SSModel.ExitStack
import SSModel.FillContext
/-!
C09 — generator-based managers and exit stacks unfold into the exact nested tree.
Property theorems only; models `SSModel/ExitStack.lean` (exit-stack children) and
`SSModel/FillContext.lean` (the generator-based manager's elaborate hook).
-/
open SS.ExitStack

theorem classify_register (idx : Nat) (op : Op) : classify idx (register op) = specOf idx op := by
  cases op <;> rfl

/-- **C09_children**: for every sequence of registration calls, of any length, the exit stack's context has
exactly one child per registered callback, in registration order, each identifying the registered manager
(or callable), its sync/async kind, the registration method and its position. -/
theorem C09_children (ops : List Op) :
    elaborate (ops.map register) = (ops.zipIdx).map (fun p => specOf p.2 p.1) := by
  unfold elaborate
  rw [List.zipIdx_map, List.map_map]
  apply List.map_congr_left
  intro p _
  simp [classify_register]

theorem C09_one_child_per_callback (ops : List Op) : (elaborate (ops.map register)).length = ops.length := by
  simp [C09_children]

/-- Registration order is display order: the k-th child describes the k-th registration. -/
theorem C09_order (ops : List Op) (k : Nat) (h : k < ops.length) :
    (elaborate (ops.map register))[k]? = some (specOf k ops[k]) := by
  rw [C09_children]
  simp [List.getElem?_map, List.getElem?_zipIdx, h]

/-- The kind is right: a child is async exactly for the async registration calls. -/
theorem C09_kind (idx : Nat) (op : Op) :
    (classify idx (register op)).isAsync =
      (match op with
       | .enterAsyncContext _ | .pushAsyncExitManager _ | .pushAsyncExitFunction _ | .pushAsyncCallback _
       | .enterAsyncContextAliased _ => true
       | _ => false) := by
  cases op <;> rfl

/-- A registered *manager* is the child's obj whatever its truthiness (the repaired F10: the model has no
place where the manager's truth value could matter). -/
theorem C09_manager_is_obj (idx : Nat) (m : Obj) :
    (classify idx (register (.enterContext m))).obj = .manager m
    ∧ (classify idx (register (.pushManager m))).obj = .manager m
    ∧ (classify idx (register (.enterAsyncContext m))).obj = .manager m
    ∧ (classify idx (register (.pushAsyncExitManager m))).obj = .manager m := ⟨rfl, rfl, rfl, rfl⟩

/-- F22, repaired: a pushed callable is never mistaken for a manager's exit because it merely has a `__self__`
(a builtin function's `__self__` is its module; a builtin bound method is a pushed method), and a manager whose
exit method goes by another name is still reported as entered. -/
theorem C09_F22_repaired (idx : Nat) (x : Obj) :
    (classify idx (register (.pushBuiltinFunction x))).obj = .callable (.builtinFunction x)
    ∧ (classify idx (register (.pushBuiltinFunction x))).method = .push
    ∧ (classify idx (register (.pushBuiltinBound x))).method = .push
    ∧ (classify idx (register (.enterContextAliased x))).method = .enterContext
    ∧ (classify idx (register (.enterContextAliased x))).obj = .manager x
    ∧ (classify idx (register (.enterAsyncContextAliased x))).method = .enterAsyncContext
    ∧ (classify idx (register (.enterAsyncContextAliased x))).awaitTag = true := ⟨rfl, rfl, rfl, rfl, rfl, rfl, rfl⟩

/-- **C09_exiting**: the generator-based glue's elaborate hook sets `inner_stack` exactly when the manager
is not exiting (its frames then appear in the main frame series instead, C03); the description is set
in both cases. -/
theorem C09_exiting (tag d : Nat) (c : SS.Fill.Ctx) :
    let e : SS.Fill.ElabC := { setInner := some tag, setDesc := some d, onlyIfNotExiting := true }
    (SS.Fill.applyElab e c).innerStack = (if c.isExiting then c.innerStack else some tag)
    ∧ (SS.Fill.applyElab e c).description = some d := by
  cases h : c.isExiting <;> simp [SS.Fill.applyElab, h]

/-! non-vacuity -/
example : elaborate ([Op.enterContext 1, .callback 2, .pushAsyncExitFunction 3, .pushBoundMethod 4 9].map register) =
    [⟨.manager 1, false, .enterContext, false, 0⟩, ⟨.callable (.exitWrapper 2), false, .callback, false, 1⟩,
     ⟨.callable (.plain 3), true, .pushAsyncExit, false, 2⟩, ⟨.manager 4, false, .push, false, 3⟩] := by decide

/-! ### the stack over time -/

theorem runEvs_eq_from (evs : List Ev) (s : St) (l : List Op × List Op)
    (h1 : s.cur = l.1.map register) (h2 : s.moved = l.2.map register) :
    (evs.foldl stepEv s).cur = ((evs.foldl liveStep l).1).map register
    ∧ (evs.foldl stepEv s).moved = ((evs.foldl liveStep l).2).map register := by
  induction evs generalizing s l with
  | nil => exact ⟨h1, h2⟩
  | cons e evs ih =>
    simp only [List.foldl_cons]
    apply ih
    · cases e <;> simp [stepEv, liveStep, h1, List.map_dropLast]
    · cases e <;> simp [stepEv, liveStep, h1, h2]

/-- **C09_history**: after ANY history of registrations, `pop_all()` calls and unwinding pops — of any length,
in any order — the children shown for the stack are exactly the still-pending registrations, in registration
order, numbered from 0; and the children shown for the stack that `pop_all()` returned are exactly the
registrations that were pending when it was called. -/
theorem C09_history (evs : List Ev) :
    elaborate (runEvs evs).cur = ((liveOps evs).1.zipIdx).map (fun p => specOf p.2 p.1)
    ∧ elaborate (runEvs evs).moved = ((liveOps evs).2.zipIdx).map (fun p => specOf p.2 p.1) := by
  have h := runEvs_eq_from evs St.init ([], []) rfl rfl
  unfold runEvs liveOps
  rw [h.1, h.2]
  exact ⟨C09_children _, C09_children _⟩

/-- **C09_stable_under_registration**: registering one more callback leaves every child already shown
unchanged (same object, kind, method and `[index]`) and adds exactly one child, last. -/
theorem C09_stable_under_registration (es : List Entry) (e : Entry) :
    elaborate (es ++ [e]) = elaborate es ++ [classify es.length e] := by
  simp [elaborate, List.zipIdx_append]

/-- **C09_stable_under_unwinding**: while the stack exits, popping the last callback removes exactly the last
child; the still-pending ones keep their identity and their `[index]`. -/
theorem C09_stable_under_unwinding (es : List Entry) :
    elaborate es.dropLast = (elaborate es).dropLast := by
  rcases List.eq_nil_or_concat es with h | ⟨l, e, h⟩
  · subst h; rfl
  · subst h; simp only [List.concat_eq_append]; rw [C09_stable_under_registration]; simp

/-- `pop_all()` empties the stack's own list of children and moves the list, unchanged, to the new stack. -/
theorem C09_pop_all (s : St) :
    elaborate (stepEv s .popAll).cur = [] ∧ elaborate (stepEv s .popAll).moved = elaborate s.cur := ⟨rfl, rfl⟩

example : (liveOps [.reg (.enterContext 1), .reg (.callback 2), .popAll, .reg (.pushFunction 3), .reg (.enterContext 4), .popOne])
    = ([.pushFunction 3], [.enterContext 1, .callback 2]) := by decide
