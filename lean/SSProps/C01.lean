/-! C01 — placeholder; theorems follow. -/
theorem C01_placeholder : True := trivial
