import SSLemmas.ExcTable
import SSLemmas.ExcTableCPython
import SSLemmas.ExcTableBisect
import SSModel.Gen.Consts
import SSLemmas.Localsplus
/-!
# C01 — contexts of a suspended frame: the table half

What is proved, for every table / position / stack: the decoder inverts the assembler's encoding
(`C01_varint_roundtrip`, `C01_table_roundtrip`); on a table as the assembler emits it (sorted, disjoint ranges)
stackscope's bisect walk visits exactly the handlers the interpreter's own lookup would hand an exception to, in
turn (`C01_walk_chain`); when handlers lie after the ranges they protect the walk ends within |table| steps
(`C01_walk_terminates`) — and a table with a handler inside its own range makes it spin (`C01_walk_cycle_witness`:
the real loop has no guard); the context list is one entry per with-handler on that chain, in chain order,
none dropped or invented, with the exiting one last, or the analysis fails as a whole (`C01_join_exact`,
`C01_join_fails_closed`).

NOT proved: that CPython's compiler emits, for every program, a table on which this chain equals the set of
managers entered and not exited — measured by harness/props/c01.py on generated programs at every suspension
point.
-/
open SS.ExcTable

theorem C01_varint_roundtrip (n : Nat) (rest : List Nat) : parseVarint (encVarint n ++ rest) = some (n, rest) :=
  parseVarint_enc n rest

/-- CPython's assembler (five explicit cases, values below 2^30) is the generic encoder: the round trip is about
the bytes the interpreter really writes. -/
theorem C01_cpython_encoder (v : Nat) (h : v < 2 ^ 30) : cpEnc v = encVarint v := cpEnc_eq v h

/-- Bit 7 (start-of-entry marker) does not disturb the decoder. -/
theorem C01_varint_msb (n : Nat) (rest : List Nat) : parseVarint (setMsb (encVarint n) ++ rest) = some (n, rest) :=
  parseVarint_encMsb n rest

/-- Every entry list survives encode → decode: byte offsets doubled, the end made inclusive, depth and the
lasti flag split. -/
theorem C01_table_roundtrip (es : List Entry) : parseTable (encodeTable es) = es.map Entry.view :=
  parseTableF_enc es _ (encodeTable_length es)

/-- A truncated table loses only its incomplete last entry (the generator's StopIteration). -/
theorem C01_truncated_tail (es : List Entry) (junk : List Nat) (hj : parseEntry junk = none) (f : Nat) (hf : es.length < f) :
    parseTableF f (encodeTable es ++ junk) = es.map Entry.view := by
  induction es generalizing f with
  | nil =>
    cases f with
    | zero => omega
    | succ f => simp [encodeTable, parseTableF, hj]
  | cons e es ih =>
    cases f with
    | zero => omega
    | succ f =>
      have : encodeTable (e :: es) ++ junk = encEntry e ++ (encodeTable es ++ junk) := by simp [encodeTable]
      rw [this]
      simp only [parseTableF, parseEntry_enc, List.map_cons]
      rw [ih f (by simpa using hf)]

/-- The standard library's binary search (`bisect.bisect_left`, transcribed) returns, on a table with sorted
disjoint ranges, the partition point: the number of entries starting at or before the position. -/
theorem C01_bisect_partition (hs : List View) (hd : Disjoint hs) (c : Nat) :
    bisectLeftBS hs c = (hs.takeWhile (ltKey · c)).length := bisectLeftBS_eq hs hd c

/-- On a table with sorted, disjoint, non-empty ranges, stackscope's walk and the interpreter's handler chain
are the same function — same blocks, same order, same behaviour on running out of fuel. -/
theorem C01_walk_chain (hs : List View) (hd : Disjoint hs) (lasti : Nat) :
    walk hs lasti = chainGo hs (hs.length + 1) lasti [] :=
  walkGo_eq_chainGo hs hd _ _ _

/-- No hang: with forward handlers the loop ends within |table| + 1 iterations. -/
theorem C01_walk_terminates (hs : List View) (hd : Disjoint hs) (hf : Forward hs) (lasti : Nat) :
    ∃ blocks, walk hs lasti = some blocks := by
  rw [C01_walk_chain hs hd]
  exact chainGo_terminates hs hf _ _ _ (by have := rem_le_length hs lasti; omega)

/-- The loop has no guard of its own: a handler inside its own range keeps it running for any fuel. -/
theorem C01_walk_cycle (f : Nat) (acc : List Block) :
    walkGo [{ start := 0, end_ := 10, target := 4, depth := 0, lasti := false }] f 4 acc = none := by
  induction f generalizing acc with
  | zero => rfl
  | succ f ih =>
    have hb : bisectLeftBS [{ start := 0, end_ := 10, target := 4, depth := 0, lasti := false }] 4 = 1 := by decide
    simp only [walkGo, hb]
    simp [covers]
    exact ih _

theorem c01_ctxOf_handler {α β : Type} (stack : List α) (selfOf : α → Option β) (b : Block) (c : Nat × Option β)
    (h : ctxOf stack selfOf b = some c) : c.1 = b.handler := by
  unfold ctxOf at h
  split at h
  · cases h
  · split at h
    · cases h
    · cases h; rfl

theorem c01_mapAll_fst {α β : Type} (stack : List α) (selfOf : α → Option β) :
    ∀ (ws : List Block) (out : List (Nat × Option β)), mapAll (ctxOf stack selfOf) ws = some out → out.map (·.1) = ws.map (·.handler) := by
  intro ws
  induction ws with
  | nil => intro out h; simp [mapAll] at h; simp [← h]
  | cons w ws ih =>
    intro out h
    simp only [mapAll] at h
    split at h
    · cases h
    · rename_i c hc
      split at h
      · cases h
      · rename_i bs hbs
        cases h
        simp [c01_ctxOf_handler stack selfOf w c hc, ih bs hbs]

theorem c01_mapAll_none {α β : Type} (f : α → Option β) (b : α) (hbad : f b = none) :
    ∀ (ws : List α), b ∈ ws → mapAll f ws = none := by
  intro ws
  induction ws with
  | nil => intro h; cases h
  | cons w ws ih =>
    intro h
    simp only [mapAll]
    rcases List.mem_cons.mp h with rfl | h
    · simp [hbad]
    · split
      · rfl
      · simp [ih h]

/-- The join keeps exactly the with-handlers of the chain, in order, and puts the exiting context last. -/
theorem C01_join_exact {α β : Type} (blocks : List Block) (isWith : Nat → Bool) (stack : List α) (selfOf : α → Option β)
    (exiting : Option Nat) (cs : List (Nat × Option β)) (h : join blocks isWith stack selfOf exiting = some cs) :
    cs.map (·.1) = ((blocks.filter (fun b => isWith b.handler)).map (·.handler)) ++ exiting.toList := by
  unfold join at h
  split at h
  · cases h
  · rename_i cs0 hm
    cases h
    rw [List.map_append, c01_mapAll_fst _ _ _ _ hm]
    cases exiting <;> simp

/-- …and when a with-handler's slot is missing or holds something without `__self__`, the analysis fails as a
whole (the caller then falls back to the referents analysis and warns): never a shorter or shifted list. -/
theorem C01_join_fails_closed {α β : Type} (blocks : List Block) (isWith : Nat → Bool) (stack : List α) (selfOf : α → Option β)
    (exiting : Option Nat) (b : Block) (hb : b ∈ blocks) (hw : isWith b.handler = true)
    (hbad : ctxOf stack selfOf b = none) :
    join blocks isWith stack selfOf exiting = none := by
  unfold join
  have hmem : b ∈ blocks.filter (fun b => isWith b.handler) := by simp [hb, hw]
  rw [c01_mapAll_none _ b hbad _ hmem]

/-- After the join, `contexts_active_in_frame` fills the exiting context's `obj` from the first argument of the frame
the program is currently calling (`next_inner`), if there is one — whatever that argument is. -/
def fillExiting {β : Type} (cs : List (Nat × Option β)) (lastIsExiting : Bool) (nextFirstArg : Option β) : List (Nat × Option β) :=
  match cs.reverse, lastIsExiting, nextFirstArg with
  | (off, _) :: rest, true, some v => (rest.reverse ++ [(off, some v)])
  | _, _, _ => cs

/-- Finding F12 in the model: the exiting context gets the next frame's first argument for *any* value of it —
nothing ties it to the manager whose exit is in progress. -/
theorem C01_F12_witness {β : Type} (cs : List (Nat × Option β)) (off : Nat) (v : β) :
    (fillExiting (cs ++ [(off, none)]) true (some v)).getLast? = some (off, some v) := by
  simp [fillExiting]

/-! Non-vacuity: the table CPython 3.12 emits for `with a as x: with b: pass` is disjoint and forward, decodes
to its six entries, and the walk from inside the inner body finds both with-handlers, outermost first. -/
def C01.exTable : List Nat := [131, 3, 37, 3, 134, 1, 25, 5, 136, 8, 37, 3, 153, 5, 34, 9, 158, 7, 37, 3, 165, 5, 46, 7]
example : (parseTable C01.exTable).length = 6 := by decide
example : disjointB (parseTable C01.exTable) = true ∧ forwardB (parseTable C01.exTable) = true := by decide
example : walk (parseTable C01.exTable) 12 = some [⟨92, 3⟩, ⟨74, 1⟩, ⟨68, 4⟩, ⟨50, 2⟩] := by decide
example : encodeTable [⟨3, 3, 37, 1, true⟩, ⟨6, 1, 25, 2, true⟩] = [131, 3, 37, 3, 134, 1, 25, 5] := by decide

/-! ### where the value stack starts: the number of localsplus slots (seeded changes C01-m8, C07-m7) -/

/-- What the model takes from the source, re-read on every run: the slot count `inspect_frame` uses. -/
theorem C01_nlocalsplus_source :
    SS.Gen.nlocalsplusExpr = "len(set(co.co_varnames + co.co_cellvars)) + len(co.co_freevars)" := by decide

/-- **C01_nlocalsplus_layout**: that expression is CPython's layout — one slot per local, one per cell that is not also a
local, one per free variable (whether or not its name is also a local's) — for any code object whose `co_varnames` and
`co_cellvars` are duplicate-free, as the compiler makes them. -/
theorem C01_nlocalsplus_layout (varnames cellvars freevars : List String) (hv : varnames.Nodup) (hc : cellvars.Nodup) :
    SS.Localsplus.slotsCode varnames cellvars freevars = SS.Localsplus.slotsLayout varnames cellvars freevars := by
  unfold SS.Localsplus.slotsCode SS.Localsplus.slotsLayout SS.Localsplus.distinct
  rw [SS.Localsplus.dedup_append_nodup varnames cellvars hv hc]

/-- Two plausible rewrites are wrong on shapes CPython 3.12 produces: merging free variables into the set (a free variable
re-used as the variable of an inlined comprehension) and discounting only closed-over *arguments* (a non-argument local that
is also a cell). -/
theorem C01_nlocalsplus_rewrites_wrong :
    SS.Localsplus.slotsMergedAll ["a", "rows", "key", "both"] [] ["key"] ≠ SS.Localsplus.slotsLayout ["a", "rows", "key", "both"] [] ["key"]
    ∧ SS.Localsplus.slotsArgsOnly ["ms", "m", "shared"] ["m", "ms"] [] 1 ≠ SS.Localsplus.slotsLayout ["ms", "m", "shared"] ["m", "ms"] [] := by
  decide

example : SS.Localsplus.slotsCode ["a", "b", "rows", "key", "both", "g"] ["a"] ["key"] = 7 := by decide
