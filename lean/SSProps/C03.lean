import SSModel.Chain
import SSLemmas.Chain
/-!
C03 — a suspended await / yield-from chain extracts as the path an exception would take.
Property theorems only.  Model: `SSModel/Extract.lean` (the traversal) and `SSModel/Chain.lean`
(chains as environments, `throwPath`); lemmas: `SSLemmas/Chain.lean`.
-/
open SS.Extract

/-- **C03_chain_frames**: for a chain of any length and any mix of links (generator-like objects and
wrappers), `extract(x)` finishes, and its frames are exactly the frames an exception thrown into `x`
unwinds through (`throwPath`), outermost first, each carrying its owner as origin and un-hidden; the
leaf is the non-frame object that ends the chain (None if frames tell the whole story); no error. -/
theorem C03_chain_frames (env : Env) (links : List Link) (x : Item) (leaf : Option Item)
    (hc : IsChain env links (some x) leaf) (hr : RunsOK links leaf 0) (hp : PlainFrames env)
    (fuel : Nat) (hf : 2 * links.length + 3 ≤ fuel) :
    extract env fuel x = .done ((throwPath links).map (fun f => ⟨f, false⟩)) (leafOf leaf) [] :=
  chain_extract env links x leaf hc hr hp fuel hf

/-- **C03_exhausted**: a finished coroutine / generator / async generator (its frame attribute and what
it awaits are both None) yields no frames, no leaf and no error, and nothing is left queued. -/
theorem C03_exhausted (env : Env) (g : Item) (hg : env.isFrame g = false)
    (hu : env.unwrap g = .seq [none, none]) (hG : 1 ≤ SS.Gen.unwrapGuard) (fuel : Nat) (hf : 2 ≤ fuel) :
    extract env fuel g = .done [] .none [] := by
  obtain ⟨n, rfl⟩ : ∃ n, fuel = n + 2 := ⟨fuel - 2, by omega⟩
  have hng : ¬ (0 + 1 > SS.Gen.unwrapGuard) := by omega
  simp [extract, run, unwrapPhase, initSt, unwrapStep, hg, hu, handleUnwrap, UnwrapRes.raised, UnwrapRes.isNone,
    UnwrapRes.children, UnwrapRes.iterErrs, hng, pushUnwrapped, elabStep]

/-- **C03_contexts_irrelevant** (chains): whether contexts are filled in or not, a chain extracts to the
same frames and leaf (context analysis of plain frames raises nothing in either mode). -/
theorem C03_contexts_irrelevant (env₁ env₂ : Env) (links : List Link) (x : Item) (leaf : Option Item)
    (h₁ : IsChain env₁ links (some x) leaf) (h₂ : IsChain env₂ links (some x) leaf) (hr : RunsOK links leaf 0)
    (p₁ : PlainFrames env₁) (p₂ : PlainFrames env₂) (w₁ : env₁.withContexts = true) (w₂ : env₂.withContexts = false)
    (fuel : Nat) (hf : 2 * links.length + 3 ≤ fuel) :
    extract env₁ fuel x = extract env₂ fuel x := by
  rw [C03_chain_frames env₁ links x leaf h₁ hr p₁ fuel hf, C03_chain_frames env₂ links x leaf h₂ hr p₂ fuel hf]

/-- The frames of the result are the chain's frames in order (projection of the headline theorem). -/
theorem C03_frames_are_throw_path (env : Env) (links : List Link) (x : Item) (leaf : Option Item)
    (hc : IsChain env links (some x) leaf) (hr : RunsOK links leaf 0) (hp : PlainFrames env) :
    ∃ fs l es, extract env (2 * links.length + 3) x = .done fs l es ∧ fs.map (·.frame) = throwPath links ∧ es = [] := by
  refine ⟨_, _, _, C03_chain_frames env links x leaf hc hr hp _ (Nat.le_refl _), ?_, rfl⟩
  simp [List.map_map, Function.comp_def]

/-! non-vacuity: coroutine 1 awaits a coroutine-wrapper 5 of coroutine 2, which awaits asend 6 of async
generator 3, which awaits a Future-like leaf 9. -/
def chEnv : Env :=
  { isFrame := fun i => i ≥ 100
    unwrap := fun i => if i = 1 then .seq [some 101, some 5] else if i = 5 then .one 2 else if i = 2 then .seq [some 102, some 6]
                       else if i = 6 then .one 3 else if i = 3 then .seq [some 103, some 9] else .none
    elabFn := fun _ _ => .none, elabHide := fun _ => false, weakrefable := fun i => i < 100 && i != 5 && i != 6
    genLike := fun i => i = 1 || i = 2 || i = 3
    frameOf := fun i => if i = 1 then some 101 else if i = 2 then some 102 else if i = 3 then some 103 else none
    withContexts := true, ctxErrs := fun _ => [] }

def chLinks : List Link := [.gen 1 101, .wrap 5, .gen 2 102, .wrap 6, .gen 3 103]

example : IsChain chEnv chLinks (some 1) (some 9) ∧ RunsOK chLinks (some 9) 0 ∧ PlainFrames chEnv := by
  refine ⟨?_, ?_, ?_⟩
  · simp [IsChain, chLinks, chEnv, UnwrapRes.raised, UnwrapRes.isNone]
  · simp [RunsOK, chLinks, SS.Gen.unwrapGuard]
  · simp [PlainFrames, chEnv]

example : extract chEnv 13 1 =
    .done [⟨⟨101, some 1⟩, false⟩, ⟨⟨102, some 2⟩, false⟩, ⟨⟨103, some 3⟩, false⟩] (.one (.item 9)) [] := by decide +kernel
