import SSModel.Extract
import SSLemmas.Extract
/-! C03 — placeholder; theorems follow. -/
open SS.Extract
theorem C03_placeholder : True := trivial
