import SSModel.Dispatch
/-!
C12 — customizations bind to exactly the code that runs; every customize option works.
Property theorems only; model `SSModel/Dispatch.lean` (over the generated facts `SS.Gen.fwd*`, `SS.Gen.sets*`).
-/
open SS.Dispatch

/-! #### get_code through wrapper towers -/

inductive Layer | fpartial | method | classmethod | staticmethod | wraps
  deriving DecidableEq, Repr

def applyLayer : Layer → Thing → Thing
  | .fpartial, t => .fpartial t
  | .method, t => .method t
  | .classmethod, t => .classmethod t
  | .staticmethod, t => .staticmethod t
  | .wraps, t => .wraps t

/-- A tower: layers (outermost first) around a base. -/
def tower (ls : List Layer) (base : Thing) : Thing := ls.foldr applyLayer base

theorem baseCode_tower (ls : List Layer) (b : Thing) : baseCode (tower ls b) = baseCode b := by
  induction ls with
  | nil => rfl
  | cons l ls ih => cases l <;> simpa [tower, applyLayer, baseCode] using ih

/-- **C12_tower**: through a tower of any height over {partial, method, classmethod, staticmethod,
wraps}, `get_code` reaches the code object of the function at the bottom. -/
theorem C12_tower (children : CodeId → List (Name × CodeId)) (ls : List Layer) (c : CodeId) :
    getCode children (tower ls (.func c)) [] = .ok c := by
  simp [getCode, baseCode_tower, baseCode, walkNames]

/-- A code object is used as is, also under a tower; anything else is a TypeError. -/
theorem C12_tower_code (children : CodeId → List (Name × CodeId)) (ls : List Layer) (c : CodeId) :
    getCode children (tower ls (.code c)) [] = .ok c ∧ getCode children (tower ls .other) [] = .error .typeError := by
  simp [getCode, baseCode_tower, baseCode, walkNames]

/-- `path` leads from `c` to `d` through nested definitions. -/
inductive ValidPath (children : CodeId → List (Name × CodeId)) : CodeId → List Name → CodeId → Prop
  | nil (c) : ValidPath children c [] c
  | cons (c n m d ns) : (n, m) ∈ children c → ValidPath children m ns d → ValidPath children c (n :: ns) d

theorem findChild_unique (children : CodeId → List (Name × CodeId)) (c : CodeId) (n : Name) (m : CodeId)
    (hu : ((children c).map (·.1)).Nodup) (hm : (n, m) ∈ children c) : findChild children c n = some m := by
  unfold findChild
  generalize children c = l at hu hm
  induction l with
  | nil => cases hm
  | cons p ps ih =>
    simp only [List.find?_cons]
    by_cases hp : p.1 = n
    · simp only [hp, beq_self_eq_true]
      simp only [List.mem_cons] at hm
      rcases hm with h | h
      · subst h; rfl
      · exfalso
        simp only [List.map_cons, List.nodup_cons] at hu
        apply hu.1
        rw [hp]
        exact List.mem_map.mpr ⟨(n, m), h, rfl⟩
    · have : (p.1 == n) = false := by simpa using hp
      simp only [this]
      simp only [List.mem_cons] at hm
      rcases hm with h | h
      · subst h; exact absurd rfl hp
      · simp only [List.map_cons, List.nodup_cons] at hu
        exact ih hu.2 h

theorem walkNames_valid (children : CodeId → List (Name × CodeId)) (hu : ∀ c, ((children c).map (·.1)).Nodup)
    (c d : CodeId) (names : List Name) (hp : ValidPath children c names d) :
    ∀ idx, walkNames children c names idx = .ok d := by
  induction hp with
  | nil c => intro idx; rfl
  | cons c n m d ns hm _ ih =>
    intro idx
    simp only [walkNames, findChild_unique children c n m (hu c) hm]
    exact ih (idx + 1)

/-- **C12_nested**: when sibling definitions have distinct names, `get_code(f, *names)` is the code
object at that path, for paths of any length (with duplicate names the first one wins — documented). -/
theorem C12_nested (children : CodeId → List (Name × CodeId)) (hu : ∀ c, ((children c).map (·.1)).Nodup)
    (ls : List Layer) (c d : CodeId) (names : List Name) (hp : ValidPath children c names d) :
    getCode children (tower ls (.func c)) names = .ok d := by
  simp only [getCode, baseCode_tower, baseCode]
  exact walkNames_valid children hu c d names hp 0

/-! #### IdentityDict behaves as a map keyed by identity -/

theorem get_set_self {V : Type} (d : IDict V) (k : Key) (v : V) : (d.set k v).get? k = some v := by
  induction d with
  | nil => simp [IDict.set, IDict.get?]
  | cons e rest ih =>
    unfold IDict.set
    by_cases h : (e.1 == k.ident) = true
    · simp [h, IDict.get?]
    · simp only [h, Bool.false_eq_true, if_false]
      simp only [IDict.get?, List.find?_cons, h] at ih ⊢
      exact ih

/-- **C12_identity**: a key with another identity is untouched — whatever the contents, equal or not. -/
theorem C12_identity {V : Type} (d : IDict V) (k₁ k₂ : Key) (v : V) (h : k₁.ident ≠ k₂.ident) :
    (d.set k₁ v).get? k₂ = d.get? k₂ := by
  induction d with
  | nil =>
    have : (k₁.ident == k₂.ident) = false := by simpa using h
    simp [IDict.set, IDict.get?, this]
  | cons e rest ih =>
    unfold IDict.set
    by_cases h1 : (e.1 == k₁.ident) = true
    · have e1 : e.1 = k₁.ident := by simpa using h1
      have : (k₁.ident == k₂.ident) = false := by simpa using h
      simp [h1, IDict.get?, this, e1]
    · simp only [h1, Bool.false_eq_true, if_false]
      simp only [IDict.get?, List.find?_cons] at ih ⊢
      by_cases h2 : (e.1 == k₂.ident) = true
      · simp [h2]
      · simp only [h2]; exact ih

/-- Two keys with the same identity are the same entry, whatever content the caller presents. -/
theorem C12_same_identity {V : Type} (d : IDict V) (k₁ k₂ : Key) (v : V) (h : k₁.ident = k₂.ident) :
    (d.set k₁ v).get? k₂ = some v := by
  have : (d.set k₁ v).get? k₂ = (d.set k₁ v).get? k₁ := by simp [IDict.get?, h]
  rw [this, get_set_self]

theorem get_erase_self {V : Type} (d : IDict V) (k : Key) : (d.erase k).get? k = none := by
  simp only [IDict.erase, IDict.get?, Option.map_eq_none_iff, List.find?_eq_none]
  intro e he
  simp only [List.mem_filter, bne_iff_ne, ne_eq] at he
  simpa using he.2

theorem get_erase_other {V : Type} (d : IDict V) (k₁ k₂ : Key) (h : k₁.ident ≠ k₂.ident) :
    (d.erase k₁).get? k₂ = d.get? k₂ := by
  induction d with
  | nil => rfl
  | cons e rest ih =>
    have ih' : ((rest.filter (fun e => e.1 != k₁.ident)).find? (fun e => e.1 == k₂.ident)).map (·.2.2)
        = (rest.find? (fun e => e.1 == k₂.ident)).map (·.2.2) := ih
    show (((e :: rest).filter (fun e => e.1 != k₁.ident)).find? (fun e => e.1 == k₂.ident)).map (·.2.2)
        = ((e :: rest).find? (fun e => e.1 == k₂.ident)).map (·.2.2)
    by_cases h1 : e.1 = k₁.ident
    · have hf : (e.1 != k₁.ident) = false := by simp [h1]
      have h2 : (e.1 == k₂.ident) = false := by simp [h1, h]
      rw [List.filter_cons, hf, List.find?_cons, h2]
      exact ih'
    · have hf : (e.1 != k₁.ident) = true := by simpa using h1
      rw [List.filter_cons, hf]
      simp only [if_true, List.find?_cons]
      cases h2 : (e.1 == k₂.ident)
      · exact ih'
      · rfl

/-- **C12_refines**: `get` after any of the mutating operations is what a plain map keyed by identity
would give (set / del / setdefault / pop). -/
theorem C12_refines {V : Type} (d : IDict V) (k q : Key) (v : V) :
    (d.set k v).get? q = (if q.ident = k.ident then some v else d.get? q)
    ∧ (d.erase k).get? q = (if q.ident = k.ident then none else d.get? q)
    ∧ (d.setdefault k v).2 = (d.get? k).getD v
    ∧ (d.setdefault k v).1.get? q = (if q.ident = k.ident then some ((d.get? k).getD v) else d.get? q)
    ∧ (d.pop k).2 = d.get? k ∧ (d.pop k).1 = d.erase k := by
  refine ⟨?_, ?_, ?_, ?_, rfl, rfl⟩
  · by_cases h : q.ident = k.ident
    · simp only [h, if_true]; exact C12_same_identity d k q v h.symm
    · simp only [h, if_false]; exact C12_identity d k q v (fun e => h e.symm)
  · by_cases h : q.ident = k.ident
    · simp only [h, if_true]
      have : (d.erase k).get? q = (d.erase k).get? k := by simp [IDict.get?, h]
      rw [this, get_erase_self]
    · simp only [h, if_false]; exact get_erase_other d k q (fun e => h e.symm)
  · unfold IDict.setdefault; cases d.get? k <;> rfl
  · unfold IDict.setdefault
    cases hg : d.get? k with
    | some w =>
      by_cases h : q.ident = k.ident
      · have : d.get? q = d.get? k := by simp [IDict.get?, h]
        simp [h, this, hg]
      · simp [h]
    | none =>
      by_cases h : q.ident = k.ident
      · simp only [h, if_true, Option.getD_none]; exact C12_same_identity d k q v h.symm
      · simp only [h, if_false]; exact C12_identity d k q v (fun e => h e.symm)

/-! #### code_dispatch: the latest registration for exactly that code object wins -/

def lastReg (regs : List (Key × Impl)) (code : Key) : Option Impl :=
  (regs.reverse.find? (fun r => r.1.ident == code.ident)).map (·.2)

theorem dispatch_foldl (regs : List (Key × Impl)) (reg0 : IDict Impl) (default : Impl) (code : Key) :
    dispatch (regs.foldl (fun r p => register r p.1 p.2) reg0) default code
      = ((lastReg regs code).orElse (fun _ => reg0.get? code)).getD default := by
  induction regs generalizing reg0 with
  | nil => simp [lastReg, dispatch]
  | cons p ps ih =>
    simp only [List.foldl_cons]
    rw [ih]
    simp only [lastReg, List.reverse_cons, List.find?_append]
    cases hf : (ps.reverse.find? (fun r => r.1.ident == code.ident)) with
    | some r => simp
    | none =>
      by_cases h : p.1.ident = code.ident
      · simp [h, register, C12_same_identity reg0 p.1 code p.2 h]
      · have : (p.1.ident == code.ident) = false := by simpa using h
        simp [this, register, C12_identity reg0 p.1 code p.2 h]

/-- **C12_dispatch**: after any sequence of registrations, a frame running code object `code` is
dispatched to the latest registration made for that very object (by identity), to the default if
there is none — a merely equal code object (same content, other identity) is unaffected. -/
theorem C12_dispatch (regs : List (Key × Impl)) (default : Impl) (code : Key) :
    dispatch (regs.foldl (fun r p => register r p.1 p.2) []) default code = (lastReg regs code).getD default := by
  rw [dispatch_foldl]
  cases lastReg regs code <;> simp [IDict.get?]

theorem C12_equal_but_distinct (default f : Impl) (c₁ c₂ : Key) (_hc : c₁.content = c₂.content) (hi : c₁.ident ≠ c₂.ident) :
    dispatch (register [] c₁ f) default c₂ = default ∧ dispatch (register [] c₁ f) default c₁ = f := by
  have h1 : (c₁.ident == c₂.ident) = false := by simpa using hi
  simp [dispatch, register, IDict.set, IDict.get?, h1]

/-! #### customize: every option takes effect, in both forms (over the generated source facts) -/

/-- **C12_customize**: for all 2³ flag combinations and all three kinds of `elaborate` callback, on any
frame: `hide` / `hide_line` set the corresponding flag (and never clear it), a replacement returned
by the callback wins, otherwise `prune` decides between PRUNE and None. -/
theorem C12_customize (o : Opts) (f : FrameFlags) :
    (customizeIt o f).1.hide = (o.hide || f.hide)
    ∧ (customizeIt o f).1.hideLine = (o.hideLine || f.hideLine)
    ∧ (customizeIt o f).2 = (match o.elab_ with
        | .returns r => .replacement r
        | _ => if o.prune then .prune else .none) := by
  obtain ⟨h, hl, p, e⟩ := o
  obtain ⟨fh, fl⟩ := f
  cases h <;> cases hl <;> cases p <;> cases e <;> cases fh <;> cases fl <;>
    simp [customizeIt, SS.Gen.setsHide, SS.Gen.setsHideLine]

/-- **C12_forms**: the decorator form forwards every option, so it equals the direct form. -/
theorem C12_forms (o : Opts) : decoratorOpts o = o := by
  obtain ⟨h, hl, p, e⟩ := o
  simp [decoratorOpts, SS.Gen.fwdHide, SS.Gen.fwdHideLine, SS.Gen.fwdPrune, SS.Gen.fwdElaborate]

/-! non-vacuity -/
example : (match getCode (fun c => if c = 1 then [(10, 2), (11, 3)] else if c = 2 then [(12, 4)] else [])
    (tower [.fpartial, .wraps, .method, .wraps] (.func 1)) [10, 12] with | .ok c => c == 4 | _ => false) = true := by decide
example : customizeIt ⟨true, true, true, .returnsNone⟩ ⟨false, false⟩ = (⟨true, true⟩, .prune) := by decide
