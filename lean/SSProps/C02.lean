/-! C02 — placeholder; theorems follow. -/
theorem C02_placeholder : True := trivial
