import SSProps.C01
import SSLemmas.ExitSelf
/-!
# C02 — contexts of a running frame: where the value stack is trimmed

For a frame that is executing, `stacktop` is not valid; `inspect_frame` trims the stack at the depth of the first
table entry covering `f_lasti` (0 if none).  Proved: that depth is the one the interpreter itself would pop the
stack to if an exception were raised at that instruction (`C02_first_cover`), so everything below it is live;
the innermost block of the walk has exactly that level, so its slot is the last one of the trimmed stack
(`C02_innermost_level`, `C02_innermost_slot_in_range`); without a covering entry nothing is read
(`C02_no_handler_empty`).

NOT proved: that the levels of the *outer* with-handlers on the chain are below the trim depth, and that the
position of a running frame rests where the matcher of `currently_exiting_context` expects — compiler facts,
measured by harness/props/c02.py with probes in the body and in every manager method.
-/
open SS.ExcTable

theorem C02_first_cover (hs : List View) (hd : Disjoint hs) (lasti : Nat) :
    firstCover hs lasti = ((lookup hs lasti).map (·.depth)).getD 0 :=
  firstCover_eq_lookup hs hd lasti

theorem C02_no_handler_empty (hs : List View) (hd : Disjoint hs) (lasti : Nat) (h : lookup hs lasti = none) :
    firstCover hs lasti = 0 ∧ walk hs lasti = some [] := by
  refine ⟨by rw [C02_first_cover hs hd, h]; rfl, ?_⟩
  rw [walk, walkGo_eq_chainGo hs hd]
  simp [chainGo, h]

/-- The innermost block (last of the outside-in list) sits exactly at the trim depth. -/
theorem C02_innermost_level (hs : List View) (hd : Disjoint hs) (lasti : Nat) (blocks : List Block)
    (h : walk hs lasti = some blocks) (hne : blocks ≠ []) :
    (blocks.getLast hne).level = firstCover hs lasti := by
  rw [walk, walkGo_eq_chainGo hs hd] at h
  rw [C02_first_cover hs hd]
  simp only [chainGo] at h
  cases hl : lookup hs lasti with
  | none => rw [hl] at h; cases h; exact absurd rfl hne
  | some v =>
    rw [hl] at h
    obtain ⟨pre, hp⟩ := chainGo_suffix hs _ _ _ _ h
    subst hp
    simp

/-- Hence the slot it names (`stack[level - 1]`) is inside a stack trimmed to `firstCover` slots. -/
theorem C02_innermost_slot_in_range {α : Type} (hs : List View) (hd : Disjoint hs) (lasti : Nat) (blocks : List Block)
    (h : walk hs lasti = some blocks) (hne : blocks ≠ []) (stack : List α) (hlen : stack.length = firstCover hs lasti)
    (hpos : 0 < (blocks.getLast hne).level) :
    (stack[(blocks.getLast hne).level - 1]?).isSome := by
  have := C02_innermost_level hs hd lasti blocks h hne
  rw [List.getElem?_eq_getElem (by omega)]; rfl

example : firstCover (parseTable C01.exTable) 12 = 2 := by decide


/-! ### the manager of an exiting context (the repaired F56) -/
open SS.ExitSelf in
/-- **C02_exiting_obj**: whatever the signature of the exit method -- any positional, keyword-only and star parameters -- if the
exit call `exit(self, a1, …)` binds at all, the lookup finds `self`: the object the exit in progress was called on. -/
theorem C02_exiting_obj (s : Sig) (self : Nat) (rest kwd : List Nat) (ls : Locals)
    (hb : bindCall s (self :: rest) kwd = some ls) :
    exitingObj s ls = some self := by
  unfold bindCall at hb
  cases hp : s.positional with
  | cons p ps =>
    -- the first named positional parameter took `self`
    simp only [hp, List.zip_cons_cons, List.map_cons] at hb
    unfold exitingObj
    simp only [hp]
    cases hva : s.varargs with
    | some v =>
      simp only [hva, Option.some.injEq] at hb
      subst hb
      simp [List.cons_append, lookup_cons_self, asObj]
    | none =>
      simp only [hva] at hb
      split at hb
      · simp only [Option.some.injEq] at hb
        subst hb
        simp [List.cons_append, lookup_cons_self, asObj]
      · exact absurd hb (by simp)
  | nil =>
    -- no named positional parameter: everything went into the star tuple
    simp only [hp, List.zip_nil_left, List.map_nil, List.length_nil, List.drop_zero, List.nil_append] at hb
    unfold exitingObj
    simp only [hp]
    cases hva : s.varargs with
    | some v =>
      simp only [hva, Option.some.injEq] at hb
      subst hb
      simp [List.cons_append, lookup_cons_self]
    | none =>
      simp [hva] at hb

open SS.ExitSelf in
/-- The lookup before F56 took `getargvalues().args[0]`, which is a keyword-only name when there is no named positional parameter:
for `def __aexit__(*args, note=…)` it reports the value of `note`, for `def __aexit__(*args)` nothing. -/
theorem C02_F56_old_code_witness :
    (bindCall ⟨[], ["note"], some "args"⟩ [0, 1, 2, 3] [77]).map (exitingObjOld ⟨[], ["note"], some "args"⟩) = some (some 77)
    ∧ (bindCall ⟨[], ["note"], some "args"⟩ [0, 1, 2, 3] [77]).map (exitingObj ⟨[], ["note"], some "args"⟩) = some (some 0)
    ∧ (bindCall ⟨[], [], some "args"⟩ [0, 1, 2, 3] []).map (exitingObjOld ⟨[], [], some "args"⟩) = some none := by decide

open SS.ExitSelf in
/-- An exit method that has unbound its own first parameter (`del self`) leaves nothing to find: `None`, not another object. -/
theorem C02_exiting_obj_deleted (p : String) (ps kw : List String) (va : Option String) (ls : Locals)
    (h : lookup ls p = none) : exitingObj ⟨p :: ps, kw, va⟩ ls = none := by
  simp [exitingObj, h, asObj]
