import SSProps.C01
/-!
# C02 — contexts of a running frame: where the value stack is trimmed

For a frame that is executing, `stacktop` is not valid; `inspect_frame` trims the stack at the depth of the first
table entry covering `f_lasti` (0 if none).  Proved: that depth is the one the interpreter itself would pop the
stack to if an exception were raised at that instruction (`C02_first_cover`), so everything below it is live;
the innermost block of the walk has exactly that level, so its slot is the last one of the trimmed stack
(`C02_innermost_level`, `C02_innermost_slot_in_range`); without a covering entry nothing is read
(`C02_no_handler_empty`).

NOT proved: that the levels of the *outer* with-handlers on the chain are below the trim depth, and that the
position of a running frame rests where the matcher of `currently_exiting_context` expects — compiler facts,
measured by harness/props/c02.py with probes in the body and in every manager method.
-/
open SS.ExcTable

theorem C02_first_cover (hs : List View) (hd : Disjoint hs) (lasti : Nat) :
    firstCover hs lasti = ((lookup hs lasti).map (·.depth)).getD 0 :=
  firstCover_eq_lookup hs hd lasti

theorem C02_no_handler_empty (hs : List View) (hd : Disjoint hs) (lasti : Nat) (h : lookup hs lasti = none) :
    firstCover hs lasti = 0 ∧ walk hs lasti = some [] := by
  refine ⟨by rw [C02_first_cover hs hd, h]; rfl, ?_⟩
  rw [walk, walkGo_eq_chainGo hs hd]
  simp [chainGo, h]

/-- The innermost block (last of the outside-in list) sits exactly at the trim depth. -/
theorem C02_innermost_level (hs : List View) (hd : Disjoint hs) (lasti : Nat) (blocks : List Block)
    (h : walk hs lasti = some blocks) (hne : blocks ≠ []) :
    (blocks.getLast hne).level = firstCover hs lasti := by
  rw [walk, walkGo_eq_chainGo hs hd] at h
  rw [C02_first_cover hs hd]
  simp only [chainGo] at h
  cases hl : lookup hs lasti with
  | none => rw [hl] at h; cases h; exact absurd rfl hne
  | some v =>
    rw [hl] at h
    obtain ⟨pre, hp⟩ := chainGo_suffix hs _ _ _ _ h
    subst hp
    simp

/-- Hence the slot it names (`stack[level - 1]`) is inside a stack trimmed to `firstCover` slots. -/
theorem C02_innermost_slot_in_range {α : Type} (hs : List View) (hd : Disjoint hs) (lasti : Nat) (blocks : List Block)
    (h : walk hs lasti = some blocks) (hne : blocks ≠ []) (stack : List α) (hlen : stack.length = firstCover hs lasti)
    (hpos : 0 < (blocks.getLast hne).level) :
    (stack[(blocks.getLast hne).level - 1]?).isSome := by
  have := C02_innermost_level hs hd lasti blocks h hne
  rw [List.getElem?_eq_getElem (by omega)]; rfl

example : firstCover (parseTable C01.exTable) 12 = 2 := by decide
