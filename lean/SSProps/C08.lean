import SSModel.Target
/-! C08 — placeholder; theorems follow. -/
open SS.Target
theorem C08_placeholder : True := trivial
