import SSLemmas.Target
/-!
# C08 — the text of a `with … as <target>` target

`SS.Target.describeTarget` is a line-by-line transcription of `describe_assignment_target` (its agreement with the
real function is measured on every run over generated and standard-library `with` statements).  Here: for the
documented grammar — names of any scope, attributes, subscripts and positional calls over arbitrarily nested load
expressions, tuple unpacking of any arity nested to any depth, one starred element anywhere — the machine run on
what the compiler emits (`compileStore`, a model of CPython 3.12's code generation for store targets, itself
compared with `dis` on every run) returns exactly the source text, with the fuel bound the transcription uses;
and an opcode outside the supported set makes the result `None`, never a wrong string.
-/
open SS.Target

theorem c08_head_expr : ∀ (e : Expr), ∃ i r, compileExpr e = i :: r ∧ (i.op == "POP_TOP") = false ∧ (i.op == "STORE_FAST") = false
  | .var sc s => ⟨{ op := loadOp sc, argval := s }, [], by simp [compileExpr], by cases sc <;> simp [loadOp], by cases sc <;> simp [loadOp]⟩
  | .const r => ⟨{ op := "LOAD_CONST", argrepr := r }, [], by simp [compileExpr], by simp, by simp⟩
  | .attr e a => by
    obtain ⟨i, r, h, h1, h2⟩ := c08_head_expr e
    exact ⟨i, r ++ [{ op := "LOAD_ATTR", argval := a }], by simp [compileExpr, h], h1, h2⟩
  | .subscr c i => by
    obtain ⟨i0, r, h, h1, h2⟩ := c08_head_expr c
    exact ⟨i0, r ++ compileExpr i ++ [{ op := "BINARY_SUBSCR" }], by simp [compileExpr, h], h1, h2⟩
  | .call true f as => ⟨{ op := "PUSH_NULL" }, compileExpr f ++ compileArgs as ++ extPrefix as.length ++ [{ op := "CALL", arg := as.length }],
      by simp [compileExpr], by decide, by decide⟩
  | .call false f as => by
    obtain ⟨i0, r, h, h1, h2⟩ := c08_head_expr f
    exact ⟨i0, r ++ compileArgs as ++ extPrefix as.length ++ [{ op := "CALL", arg := as.length }], by simp [compileExpr, h], h1, h2⟩
  | .superAttr m c o a => ⟨{ op := "LOAD_GLOBAL", argval := "super" }, compileExpr c ++ compileExpr o
      ++ [{ op := "LOAD_SUPER_ATTR", argval := a, arg := if m then 3 else 2 }], by simp [compileExpr], by decide, by decide⟩

/-- The main theorem: every well-formed target renders to its source text. -/
theorem C08_target (t : Tgt) (hw : WF t) (rest : List Insn) :
    describeTarget (compileStore t ++ rest) = some (renderTgt t) := by
  have hfuel : need t ≤ 2 * (compileStore t ++ rest).length + 2 := by
    have := need_le t; simp only [List.length_append]; omega
  have hrun := nt_tgt t _ rest hw hfuel
  cases t with
  | var sc s =>
    cases sc <;> simp only [compileStore, storeOp, List.singleton_append, describeTarget, renderTgt] at hrun ⊢
    · simp
    all_goals (simp only [List.length_cons] at hrun ⊢; rw [hrun]; simp)
  | attr e a =>
    obtain ⟨i, r, h, h1, h2⟩ := c08_head_expr e
    have hc : compileStore (.attr e a) ++ rest = i :: (r ++ [{ op := "STORE_ATTR", argval := a }] ++ rest) := by
      simp [compileStore, h]
    rw [hc] at hrun ⊢
    simp only [describeTarget, h1, h2, Bool.false_eq_true, if_false]
    rw [hrun]
  | subscr c ix =>
    obtain ⟨i, r, h, h1, h2⟩ := c08_head_expr c
    have hc : compileStore (.subscr c ix) ++ rest = i :: (r ++ compileExpr ix ++ [{ op := "STORE_SUBSCR" }] ++ rest) := by
      simp [compileStore, h]
    rw [hc] at hrun ⊢
    simp only [describeTarget, h1, h2, Bool.false_eq_true, if_false]
    rw [hrun]
  | tuple ts =>
    by_cases hx : 256 ≤ ts.length
    · have hc : compileStore (.tuple ts) ++ rest
          = { op := "EXTENDED_ARG" } :: ({ op := "UNPACK_SEQUENCE", arg := ts.length } :: (compileStores ts ++ rest)) := by
        simp [compileStore, extPrefix, hx]
      rw [hc] at hrun ⊢
      simp only [describeTarget]
      rw [hrun]; simp
    · have hc : compileStore (.tuple ts) ++ rest = { op := "UNPACK_SEQUENCE", arg := ts.length } :: (compileStores ts ++ rest) := by
        simp [compileStore, extPrefix, hx]
      rw [hc] at hrun ⊢
      simp only [describeTarget]
      rw [hrun]; simp
  | starred b s a =>
    by_cases hx : 256 ≤ b.length + 256 * a.length
    · have hc : compileStore (.starred b s a) ++ rest
          = { op := "EXTENDED_ARG" } :: ({ op := "UNPACK_EX", arg := b.length + 256 * a.length } :: (compileStores b ++ compileStore s ++ compileStores a ++ rest)) := by
        simp [compileStore, extPrefix, hx]
      rw [hc] at hrun ⊢
      simp only [describeTarget]
      rw [hrun]; simp
    · have hc : compileStore (.starred b s a) ++ rest
          = { op := "UNPACK_EX", arg := b.length + 256 * a.length } :: (compileStores b ++ compileStore s ++ compileStores a ++ rest) := by
        simp [compileStore, extPrefix, hx]
      rw [hc] at hrun ⊢
      simp only [describeTarget]
      rw [hrun]; simp

theorem C08_name (sc : Scope) (s : String) (rest : List Insn) :
    describeTarget ({ op := storeOp sc, argval := s } :: rest) = some s :=
  C08_target (.var sc s) trivial rest

theorem C08_attr (e : Expr) (a : String) (rest : List Insn) :
    describeTarget (compileExpr e ++ [{ op := "STORE_ATTR", argval := a }] ++ rest) = some (renderExpr e ++ "." ++ a) := by
  have := C08_target (.attr e a) trivial rest
  simpa [compileStore, renderTgt] using this

theorem C08_subscr (c i : Expr) (rest : List Insn) :
    describeTarget (compileExpr c ++ compileExpr i ++ [{ op := "STORE_SUBSCR" }] ++ rest) = some (renderExpr c ++ "[" ++ renderExpr i ++ "]") := by
  have := C08_target (.subscr c i) trivial rest
  simpa [compileStore, renderTgt] using this

/-- A positional call inside the target (`with cm as f(x, y).attr`). -/
theorem C08_call (pn : Bool) (f : Expr) (args : Args) (a : String) (rest : List Insn) :
    describeTarget (compileStore (.attr (.call pn f args) a) ++ rest)
      = some (renderExpr f ++ "(" ++ ", ".intercalate (renderArgs args) ++ ")" ++ "." ++ a) := by
  have := C08_target (.attr (.call pn f args) a) trivial rest
  simpa [renderTgt, renderExpr] using this

/-- Unpacking of any arity, nested to any depth. -/
theorem C08_tuple (ts : Tgts) (hw : WFs ts) (rest : List Insn) :
    describeTarget (compileStore (.tuple ts) ++ rest) = some (formatTuple (renderTgts ts)) := by
  have := C08_target (.tuple ts) (by simpa [WF] using hw) rest
  simpa [renderTgt] using this

/-- A starred element anywhere. -/
theorem C08_starred (b : Tgts) (s : Tgt) (a : Tgts) (hw : WF (.starred b s a)) (rest : List Insn) :
    describeTarget (compileStore (.starred b s a) ++ rest) = some (formatTuple (renderTgts b ++ ["*" ++ renderTgt s] ++ renderTgts a)) := by
  have := C08_target (.starred b s a) hw rest
  simpa [renderTgt] using this

theorem C08_one_tuple_comma (v : String) : formatTuple [v] = "(" ++ v ++ ",)" := rfl

def supported (op : String) : Bool :=
  op == "EXTENDED_ARG" || isNameOp op || isAttrOp op || op == "LOAD_CONST" || isSubscrOp op || isSliceOp op ||
  op == "UNPACK_SEQUENCE" || op == "UNPACK_EX" || isCallOp op || op == "DUP_TOP" || op == "POP_TOP" ||
  op == "PRECALL" || op == "CACHE" || op == "PUSH_NULL" || op == "LOAD_SUPER_ATTR"

theorem c08_step_unsupported (f : Nat) (i : Insn) (rest : List Insn) (st : List String) (h : supported i.op = false) :
    nextTarget (f + 1) (i :: rest) st = .error .value := by
  simp only [supported, Bool.or_eq_false_iff] at h
  obtain ⟨⟨⟨⟨⟨⟨⟨⟨⟨⟨⟨⟨⟨⟨h1, h2⟩, h3⟩, h4⟩, h5⟩, h6⟩, h7⟩, h8⟩, h9⟩, h10⟩, h11⟩, h12⟩, h13⟩, h14⟩, h15⟩ := h
  simp [nextTarget, h1, h2, h3, h4, h5, h6, h7, h8, h9, h10, h11, h12, h13, h14, h15]

/-- An opcode outside the supported set — right away or after any load-expression prefix — gives `None`. -/
theorem C08_unsupported_is_none (e : Expr) (i : Insn) (rest : List Insn) (h : supported i.op = false) :
    describeTarget (compileExpr e ++ i :: rest) = none := by
  obtain ⟨i0, r, hc, h1, h2⟩ := c08_head_expr e
  have hrun : nextTarget (2 * (compileExpr e ++ i :: rest).length + 2) (compileExpr e ++ i :: rest) [] = .error .value := by
    have : 2 * (compileExpr e ++ i :: rest).length + 2
        = (compileExpr e).length + (((compileExpr e).length + 2 * (i :: rest).length + 1) + 1) := by
      simp only [List.length_append]; omega
    rw [this, nt_expr e _ _ []]
    exact c08_step_unsupported _ i rest _ h
  rw [hc] at hrun ⊢
  simp only [List.cons_append, describeTarget, h1, h2, Bool.false_eq_true, if_false] at hrun ⊢
  rw [hrun]

theorem C08_unsupported_first (i : Insn) (rest : List Insn) (h : supported i.op = false) :
    describeTarget (i :: rest) = none := by
  simp only [supported, Bool.or_eq_false_iff] at h
  have hp : (i.op == "POP_TOP") = false := h.1.1.1.1.2
  have hs : (i.op == "STORE_FAST") = false := by
    have := h.1.1.1.1.1.1.1.1.1.1.1.1.1.2
    simp only [isNameOp] at this
    simp at this ⊢
    exact this.2.2.2.2.2.1
  simp only [describeTarget, hp, hs, Bool.false_eq_true, if_false]
  rw [c08_step_unsupported _ i rest [] (by simp only [supported, Bool.or_eq_false_iff]; exact h)]

/-- 3.12's `LOAD_SUPER_ATTR` (the repaired F57): a target that reads an attribute of `super(c, o)` -- as an attribute, a subscript or
a method call -- renders to its source text, like any other load expression. -/
theorem C08_super_attr (m : Bool) (c o : Expr) (a b : String) (rest : List Insn) :
    describeTarget (compileStore (.attr (.superAttr m c o a) b) ++ rest)
      = some ("super(" ++ renderExpr c ++ ", " ++ renderExpr o ++ ")." ++ a ++ "." ++ b) := by
  have := C08_target (.attr (.superAttr m c o a) b) (by simp [WF]) rest
  simpa [renderTgt, renderExpr, String.append_assoc] using this

/-- A concrete instance (subscript of a super attribute), and `LOAD_SUPER_ATTR` is in the supported set (before F57 it was not: the target was dropped and the locals fallback took over). -/
theorem C08_super_subscr_example :
    supported "LOAD_SUPER_ATTR" = true ∧
    describeTarget (compileStore (.subscr (.superAttr false (.var .fast "K") (.var .fast "self") "table") (.var .fast "k")))
      = some "super(K, self).table[k]" := by decide

/-! Non-vacuity: `with cm as (a, *b.c, d[0]):` -/
def c08Ex : Tgt := .starred (.cons (.var .fast "a") .nil) (.attr (.var .fast "b") "c") (.cons (.subscr (.var .fast "d") (.const "0")) .nil)
example : WF c08Ex := by simp [c08Ex, WF, WFs, Tgts.length]
example : renderTgt c08Ex = "(a, *b.c, d[0])" := by decide
example : describeTarget (compileStore c08Ex) = some "(a, *b.c, d[0])" := by decide
