import SSModel.Extract
import SSLemmas.Extract
/-!
C10 — frame hooks: unwrap to a fixpoint; `elaborate_frame` edits only the inward rest.
Property theorems only; helper lemmas are in `SSLemmas/Extract.lean`; the model is `SSModel/Extract.lean`.
-/
open SS.Extract

/-- **keep**: a hook that returns `None` leaves the rest of the stack exactly as it was. -/
theorem C10_keep (env : Env) (s : St) (f : FrameRec) (d : Nat) (rest : List EE)
    (h : s.toElab = ⟨.frameObj f, d⟩ :: rest)
    (hr : env.elabFn f.pyframe (nextView rest.head?) = .none) :
    ∃ s', elabStep env s = .inr s' ∧ s'.toElab = rest ∧ s'.toUnwrap = s.toUnwrap
      ∧ s'.out = s.out ++ [⟨f, env.elabHide f.pyframe⟩] := by
  simp [elabStep, h, hr, elabOutcome]

/-- **replace / PRUNE**: a result that does not end in `next_inner` (in particular the empty one) is
queued at the frame's depth `d`, and of the old rest exactly the leading entries of depth ≥ `d` are
removed. -/
theorem C10_prune_local (env : Env) (s : St) (f : FrameRec) (d : Nat) (rest : List EE) (es : List Elem)
    (h : s.toElab = ⟨.frameObj f, d⟩ :: rest)
    (hr : env.elabFn f.pyframe (nextView rest.head?) = .seq es)
    (hrep : es = [] ∨ (es.map (resolveElem (nextObj rest.head?))).getLast? ≠ some (nextObj rest.head?)) :
    ∃ s', elabStep env s = .inr s' ∧ s'.toElab = []
      ∧ s'.toUnwrap = (es.map (resolveElem (nextObj rest.head?))).map (fun o => ⟨betterOrigin env o none, o, d⟩)
                        ++ (backOf rest).dropWhile (fun q => q.depth ≥ d) := by
  have hcond : replacing (es.map (resolveElem (nextObj rest.head?))) (nextObj rest.head?) = true := by
    unfold replacing
    rcases hrep with h0 | h1
    · simp [h0]
    · exact Bool.or_eq_true_iff.mpr (Or.inr (bne_iff_ne.mpr h1))
  simp only [elabStep, h, hr, elabOutcome, requeue, hcond, if_true]
  exact ⟨_, rfl, rfl, rfl⟩

/-- What `dropWhile (depth ≥ d)` removes is a prefix all of whose entries are at least as deep as the
pruning frame, and the first surviving entry (if any) is strictly shallower: only the frame's callees
go, nothing outward of them. -/
theorem C10_prune_only_callees (q : List QE) (d : Nat) :
    ∃ pre, q = pre ++ q.dropWhile (fun e => e.depth ≥ d)
      ∧ (∀ e ∈ pre, e.depth ≥ d)
      ∧ (∀ e, (q.dropWhile (fun e => e.depth ≥ d)).head? = some e → e.depth < d) := by
  induction q with
  | nil => exact ⟨[], rfl, by simp, by simp⟩
  | cons x xs ih =>
    obtain ⟨pre, h1, h2, h3⟩ := ih
    by_cases hx : x.depth ≥ d
    · refine ⟨x :: pre, ?_, ?_, ?_⟩
      · simp only [List.dropWhile_cons, hx, decide_true, if_true, List.cons_append]
        rw [← h1]
      · intro e he
        simp at he
        rcases he with h | h
        · subst h; exact hx
        · exact h2 e h
      · simpa only [List.dropWhile_cons, hx, decide_true, if_true] using h3
    · refine ⟨[], ?_, by simp, ?_⟩
      · simp [hx]
      · intro e he
        simp [hx] at he
        subst he
        omega

/-- A raising `elaborate_frame` behaves as PRUNE and un-hides the frame; its exception is recorded. -/
theorem C10_elaborate_fail (env : Env) (s : St) (f : FrameRec) (d : Nat) (rest : List EE) (e : Nat)
    (h : s.toElab = ⟨.frameObj f, d⟩ :: rest)
    (hr : env.elabFn f.pyframe (nextView rest.head?) = .raise e) :
    ∃ s', elabStep env s = .inr s' ∧ s'.toElab = []
      ∧ s'.toUnwrap = (backOf rest).dropWhile (fun q => q.depth ≥ d)
      ∧ s'.out = s.out ++ [⟨f, false⟩]
      ∧ s'.errors = s.errors ++ (if env.withContexts then (env.ctxErrs f.pyframe).map .hook else []) ++ [.hook e] := by
  simp [elabStep, h, hr, elabOutcome, requeue, replacing]

/-- **insert**: a result ending in `next_inner` queues its other items before the rest, which is kept
whole — `next_inner` included; only its recorded depth is capped at the inserting frame's depth, so that
a PRUNE issued by one of the inserted items cannot remove it. -/
theorem C10_insert (env : Env) (s : St) (f : FrameRec) (d : Nat) (rest : List EE) (es : List Elem)
    (h : s.toElab = ⟨.frameObj f, d⟩ :: rest)
    (hr : env.elabFn f.pyframe (nextView rest.head?) = .seq es)
    (hne : es ≠ [])
    (hins : (es.map (resolveElem (nextObj rest.head?))).getLast? = some (nextObj rest.head?)) :
    ∃ s', elabStep env s = .inr s' ∧ s'.toElab = []
      ∧ s'.toUnwrap = ((es.map (resolveElem (nextObj rest.head?))).dropLast).map (fun o => ⟨betterOrigin env o none, o, d⟩)
                        ++ capHead d (backOf rest)
      ∧ (capHead d (backOf rest)).map (·.cur) = rest.map (·.node)
      ∧ (capHead d (backOf rest)).drop 1 = (backOf rest).drop 1 := by
  have hcond : replacing (es.map (resolveElem (nextObj rest.head?))) (nextObj rest.head?) = false := by
    unfold replacing
    simp [hne, hins]
  simp only [elabStep, h, hr, elabOutcome, requeue, hcond]
  refine ⟨_, rfl, rfl, rfl, ?_, ?_⟩
  · cases rest with
    | nil => rfl
    | cons x xs => simp [backOf, capHead]
  · cases rest with
    | nil => rfl
    | cons x xs => simp [backOf, capHead]

/-- **unwrap to a fixpoint**: when the unwrap phase ends nothing is left to unwrap, no frame was
emitted or altered by it, and no raw python frame is left among the pending nodes that it added —
each was wrapped into a `Frame`. -/
theorem C10_unwrap_fixpoint (env : Env) (fuel : Nat) (s s' : St)
    (h : unwrapPhase env fuel s = some s') :
    s'.toUnwrap = [] ∧ s'.out = s.out
      ∧ ∀ e ∈ s'.toElab, e ∈ s.toElab ∨ (∀ i, e.node = .item i → env.isFrame i = false) :=
  ⟨unwrapPhase_empties env fuel s s' h, unwrapPhase_out env fuel s s' h, unwrapPhase_nodes env fuel s s' h⟩

/-- **outward frames are never touched**: whatever happens later, the frames already emitted are a
prefix of the final result, identical records and flags. -/
theorem C10_outward_untouched (env : Env) (fuel : Nat) (s : St) (fs : List OutFrame) (l : Leaf) (es : List Err)
    (h : run env fuel s = .done fs l es) : s.out <+: fs :=
  run_out_prefix env fuel s fs l es h

/-- Errors too are only ever appended. -/
theorem C10_errors_append_only (env : Env) (fuel : Nat) (s : St) (fs : List OutFrame) (l : Leaf) (es : List Err)
    (h : run env fuel s = .done fs l es) : s.errors <+: es :=
  run_errors_prefix env fuel s fs l es h

/-- **the guard**: if no unwrap result has more than one (non-None) element — so every unwrap cycle is
linear — the unwrap phase ends within `|queue|·(guard+1)+guard+1` steps whatever the hooks
return, cycles included: no hang. -/
theorem C10_linear_guard (env : Env) (hlin : Linear env) (s : St) (hl : s.loops ≤ SS.Gen.unwrapGuard) :
    ∃ s', unwrapPhase env (s.toUnwrap.length * (SS.Gen.unwrapGuard + 1) + (SS.Gen.unwrapGuard - s.loops) + 1) s = some s' :=
  unwrapPhase_terminates env hlin _ s hl (Nat.le_refl _)

/-- The self-loop `unwrap x = x` ends after the guard's number of steps with `x` as the leaf and one
guard error (executed on the generated guard value). -/
def selfLoopEnv : Env :=
  { isFrame := fun _ => false, unwrap := fun _ => .one 0, elabFn := fun _ _ => .none, elabHide := fun _ => false,
    weakrefable := fun _ => true, genLike := fun _ => false, frameOf := fun _ => none, withContexts := false, ctxErrs := fun _ => [] }

theorem C10_guard_fires : extract selfLoopEnv (SS.Gen.unwrapGuard + 5) 0 = .done [] (.one (.item 0)) [.guard] := by
  decide +kernel

/-- **F9 (known finding)**: with `unwrap x = (x, x)` the guard fires, resets, and the queue keeps
growing; the model never finishes, for any amount of fuel — the Python `extract()` never returns. -/
theorem C10_F9_diverges (fuel : Nat) : extract f9Env fuel 0 = .outOfFuel :=
  f9_diverges fuel

/-! #### non-vacuity: a concrete environment exercising insert, then PRUNE from the inserted frame -/
def exEnv : Env :=
  { isFrame := fun i => i ≥ 10
    unwrap := fun i => if i = 0 then .seq [some 10, some 11, some 12] else .none
    elabFn := fun i _ => if i = 10 then .seq [.item 13, .next] else if i = 13 then .seq [] else .none
    elabHide := fun _ => false, weakrefable := fun _ => true, genLike := fun _ => false, frameOf := fun _ => none
    withContexts := false, ctxErrs := fun _ => [] }

example : extract exEnv 50 0 =
    .done [⟨⟨10, none⟩, false⟩, ⟨⟨13, none⟩, false⟩] .none [] := by decide +kernel
