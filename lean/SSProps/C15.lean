import SSModel.Slice
import SSProps.C04
/-!
C15 — greenlet stacks: suspended, current, dead, foreign-thread (the greenback half is decided on real
runs only, see DESIGN).  Property theorems only; model `SSModel/Slice.lean` (`unwrapGreenlet`, `unwrapSlice`).
-/
open SS.Slice

/-- **C15_dead_unstarted / C15_other_thread**: no frames for an unstarted or dead greenlet; an error, not some
other stack, for one running in another thread. -/
theorem C15_dead_unstarted (w : World) (hp : Bool) :
    unwrapGreenlet w .notStarted hp = .none ∧ unwrapGreenlet w .dead hp = .none := ⟨rfl, rfl⟩

theorem C15_other_thread (w : World) (hp : Bool) : unwrapGreenlet w .otherThread hp = .error := rfl

/-- The slice handed on for a suspended greenlet is bounded on both sides by the greenlet's own frames:
its entry function (where its f_back chain ends) and its switch point (`gr_frame`). -/
theorem C15_suspended_slice (w : World) (fs : List Frame) (hp : Bool) :
    unwrapGreenlet w (.suspended fs) hp = .slice fs.getLast? fs.head? := rfl

theorem takeWhile_ne_last (fs : List Frame) (x : Frame) (hn : (fs ++ [x]).Nodup) :
    (fs ++ [x]).takeWhile (· != x) = fs := by
  induction fs with
  | nil => simp
  | cons a as ih =>
    have hax : a ≠ x := by
      intro h; subst h
      simp [List.nodup_cons] at hn
    have : (a != x) = true := by simpa using hax
    simp only [List.cons_append, List.takeWhile_cons, this, if_true]
    rw [ih (by simpa [List.nodup_cons] using (List.nodup_cons.mp hn).2)]

/-- **C15_suspended (asked from outside)**: when the asker's own stack shares no frame with the suspended
greenlet (main greenlet, a sibling, another greenlet family), the result is exactly the greenlet's own
frames from its entry function to its switch point, whatever the asker's depth and nesting.
The greenlet's frames are `front ++ [entry]`, switch point first. -/
theorem C15_suspended_outside (w : World) (front : List Frame) (entry hd : Frame)
    (hh : (front ++ [entry]).head? = some hd) (hnd : (front ++ [entry]).Nodup)
    (hother : (w.segs ++ w.others).find? (fun s => s.contains hd) = some (front ++ [entry]))
    (hdisj : ∀ f ∈ front ++ [entry], f ∉ w.segs.flatten) :
    unwrapSlice w (front ++ [entry]).getLast? (front ++ [entry]).head? none = .frames (front ++ [entry]).reverse := by
  rw [List.getLast?_concat, hh]
  have hidx : ∀ f ∈ front ++ [entry], indexOf? w.segs.flatten f = none := by
    intro f hf
    unfold indexOf?
    have hnm := hdisj f hf
    have : w.segs.flatten.findIdx (· == f) = w.segs.flatten.length := by
      apply List.findIdx_eq_length_of_false
      intro x hx
      simp only [beq_eq_false_iff_ne, ne_eq]
      intro e; subst e; exact hnm hx
    simp [this]
  have hhd : hd ∈ front ++ [entry] := List.mem_of_mem_head? hh
  have hgs : greenletSlice w.segs.flatten (some entry) (some hd) = [] := by
    unfold greenletSlice
    have hne : w.segs.flatten.head? ≠ some hd := by
      intro e
      exact hdisj hd hhd (List.mem_of_mem_head? e)
    have : (w.segs.flatten.head? == some hd) = false := by simpa using hne
    simp [this, hidx hd hhd]
  have hchain : fbackChain w hd = front ++ [entry] := by
    unfold fbackChain
    rw [hother]
    cases front with
    | nil => simp at hh; subst hh; simp [List.dropWhile_cons]
    | cons a as => simp at hh; subst hh; simp [List.dropWhile_cons]
  have htf : tryFrom w (some entry) hd = (front ++ [entry]).reverse := by
    unfold tryFrom
    rw [hchain]
    have hmem : (front ++ [entry]).contains entry = true := by simp
    simp only [hmem, if_true]
    rw [takeWhile_ne_last front entry hnd]
  unfold unwrapSlice
  have hfirst : (if w.segs.length ≥ 2 then greenletSlice w.segs.flatten (some entry) (some hd) else []) = [] := by
    split
    · exact hgs
    · rfl
  simp only [hfirst, List.isEmpty_nil, if_true, Option.getD_some, htf]
  simp [applyLimit]

/-- **C15_suspended (asked from a descendant)** — the repaired F8: when the suspended greenlet is one of the
asker's ancestors, its frames `front ++ [entry]` sit on the asker's greenlet-parent-extended stack between
the descendants' frames `pre` and the older ancestors' frames `post`; the result is still exactly the
greenlet's own frames, none of `post`. -/
theorem C15_suspended_from_descendant (w : World) (pre front post : List Frame) (entry hd : Frame)
    (hh : (front ++ [entry]).head? = some hd)
    (hT : w.segs.flatten = pre ++ (front ++ [entry]) ++ post)
    (hg : w.segs.length ≥ 2) (hnd : (pre ++ (front ++ [entry]) ++ post).Nodup) :
    unwrapSlice w (front ++ [entry]).getLast? (front ++ [entry]).head? none = .frames (front ++ [entry]).reverse := by
  rw [List.getLast?_concat, hh]
  have hi : (pre ++ (front ++ [entry]) ++ post)[pre.length]? = some hd := by
    rw [List.append_assoc, List.getElem?_append_right (by omega)]
    simp only [Nat.sub_self]
    rw [List.getElem?_append_left (by simp)]
    cases front with
    | nil => simpa using hh
    | cons a as => simpa using hh
  have ho : (pre ++ (front ++ [entry]) ++ post)[pre.length + front.length]? = some entry := by
    rw [List.append_assoc, List.getElem?_append_right (by omega)]
    simp only [Nat.add_sub_cancel_left]
    rw [List.getElem?_append_left (by simp)]
    simp
  rw [C04_greenlet_slice w _ hT hg hnd pre.length (pre.length + front.length) hd entry (by omega) hi ho]
  congr 1
  unfold sliceOf
  congr 1
  have e1 : (pre ++ (front ++ [entry]) ++ post).take (pre.length + front.length + 1) = pre ++ (front ++ [entry]) :=
    List.take_left' (by simp; omega)
  rw [e1, List.drop_left]

/-- **C15_current**: for the greenlet making the call, the slice is bounded by the caller and by the
outermost frame of the caller's own segment (a child greenlet), or unbounded outward in the main greenlet. -/
theorem C15_current (w : World) :
    unwrapGreenlet w .current true = .slice (w.segs.head?.bind List.getLast?) (some ((w.segs.head?.bind List.head?).getD 0))
    ∧ unwrapGreenlet w .current false = .slice none (some ((w.segs.head?.bind List.head?).getD 0)) := ⟨rfl, rfl⟩

/-! non-vacuity: main [1,2], G1 [3,4] (suspended in child.switch()), G2 [5,6] asking -/
def exW : World := ⟨[[6, 5], [4, 3], [2, 1]], [], []⟩

example : (match unwrapGreenlet exW (.suspended [4, 3]) true with
    | .slice o i => unwrapSlice exW o i none | _ => .frames []) = .frames [3, 4] := by decide
example : (match unwrapGreenlet exW .current true with
    | .slice o i => unwrapSlice exW o i none | _ => .frames []) = .frames [5, 6] := by decide
