import Lean.Data.Json
/-! Small JSON helpers shared by the per-property drivers. -/
namespace SS.Drv
open Lean

def jBool (j : Json) : Except String Bool := j.getBool?
def jNat (j : Json) : Except String Nat := j.getNat?
def jStr (j : Json) : Except String String := j.getStr?
def jArr (j : Json) : Except String (Array Json) := j.getArr?
def jOptBool (j : Json) : Except String (Option Bool) :=
  match j with
  | .null => pure none
  | _ => do pure (some (← j.getBool?))
def jOptNat (j : Json) : Except String (Option Nat) :=
  match j with
  | .null => pure none
  | _ => do pure (some (← j.getNat?))
def jField (j : Json) (k : String) : Except String Json := j.getObjVal? k

def pyBool (b : Bool) : String := if b then "T" else "F"
def pyOptBool : Option Bool → String
  | none => "N"
  | some b => pyBool b

end SS.Drv
