import SSDriver.Util
import SSModel.Dispatch
namespace SS.Drv.C12
open Lean SS.Dispatch SS.Drv

def mkThing (layers : List String) (base : Thing) : Except String Thing :=
  layers.foldrM (fun l t => match l with
    | "partial" => pure (Thing.fpartial t)
    | "method" => pure (.method t)
    | "classmethod" => pure (.classmethod t)
    | "staticmethod" => pure (.staticmethod t)
    | "wraps" => pure (.wraps t)
    | x => throw s!"bad layer {x}") base

def showGetCode : Except GetCodeErr CodeId → String
  | .ok c => s!"code{c}"
  | .error .typeError => "TypeError"
  | .error (.valueError i) => s!"ValueError@{i}"

def parseKey (j : Json) : Except String Key := do
  let a ← jArr j
  pure ⟨← jNat a[0]!, ← jNat a[1]!⟩

def showOptV : Option Nat → String
  | none => "KeyError"
  | some v => toString v

/-- IdentityDict op sequence; each op prints its result. -/
def runIdict (ops : List Json) : Except String (List String) := do
  let mut d : IDict Nat := []
  let mut out : List String := []
  for op in ops do
    let a ← jArr op
    let tag ← jStr a[0]!
    match tag with
    | "set" => d := d.set (← parseKey a[1]!) (← jNat a[2]!); out := out ++ ["ok"]
    | "get" => out := out ++ [showOptV (d.get? (← parseKey a[1]!))]
    | "del" =>
      let k ← parseKey a[1]!
      if d.contains k then d := d.erase k; out := out ++ ["ok"] else out := out ++ ["KeyError"]
    | "pop" =>
      let k ← parseKey a[1]!
      let (d', r) := d.pop k
      d := d'; out := out ++ [showOptV r]
    | "popdefault" =>
      let k ← parseKey a[1]!
      let (d', r) := d.pop k
      -- the default may be None (JSON null): an explicit None default is still a default
      let dflt ← jOptNat a[2]!
      d := d'; out := out ++ [match r with | some v => toString v | none => (match dflt with | some v => toString v | none => "None")]
    | "setdefault" =>
      let (d', r) := d.setdefault (← parseKey a[1]!) (← jNat a[2]!)
      d := d'; out := out ++ [toString r]
    | "contains" => out := out ++ [pyBool (d.contains (← parseKey a[1]!))]
    | "len" => out := out ++ [toString d.len]
    | "keys" => out := out ++ ["[" ++ ",".intercalate (d.keys.map (fun k => toString k.ident)) ++ "]"]
    | "popitem" =>
      let (d', r) := d.popitem
      d := d'
      out := out ++ [match r with | none => "KeyError" | some (k, v) => s!"{k.ident}:{v}"]
    | "clear" => d := []; out := out ++ ["ok"]
    | t => throw s!"bad idict op {t}"
  pure out

def handle (j : Json) : Except String String := do
  let k ← jStr (← jField j "k")
  match k with
  | "tower" =>
    -- {"layers":[...], "base":"func"|"code"|"other", "children":[[parent,name,child]...], "names":[...]}
    let layers ← (← jArr (← jField j "layers")).toList.mapM jStr
    let base ← match (← jStr (← jField j "base")) with
      | "func" => pure (Thing.func 0)
      | "code" => pure (Thing.code 0)
      | _ => pure Thing.other
    let t ← mkThing layers base
    let ch ← (← jArr (← jField j "children")).toList.mapM (fun r => do
      let a ← jArr r
      pure ((← jNat a[0]!), (← jNat a[1]!), (← jNat a[2]!)))
    let children : CodeId → List (Dispatch.Name × CodeId) := fun c => (ch.filter (·.1 == c)).map (fun r => (r.2.1, r.2.2))
    let names ← (← jArr (← jField j "names")).toList.mapM jNat
    pure (showGetCode (getCode children t names))
  | "idict" =>
    let outs ← runIdict (← jArr (← jField j "ops")).toList
    pure (" ".intercalate outs)
  | "dispatch" =>
    -- {"regs":[[[id,content],impl]...], "queries":[[id,content]...]}
    let regs ← (← jArr (← jField j "regs")).toList.mapM (fun r => do
      let a ← jArr r
      pure ((← parseKey a[0]!), (← jNat a[1]!)))
    let reg := regs.foldl (fun r p => register r p.1 p.2) []
    let qs ← (← jArr (← jField j "queries")).toList.mapM parseKey
    pure (" ".intercalate (qs.map (fun q => toString (dispatch reg 0 q))))
  | "customize" =>
    -- {"hide":b,"hide_line":b,"prune":b,"elab":"absent"|"none"|"repl","form":"direct"|"decorator"}
    let o : Opts := { hide := ← jBool (← jField j "hide"), hideLine := ← jBool (← jField j "hide_line"),
                      prune := ← jBool (← jField j "prune"),
                      elab_ := match (← jStr (← jField j "elab")) with
                        | "absent" => .absent | "none" => .returnsNone | _ => .returns 1 }
    let o' := if (← jStr (← jField j "form")) == "decorator" then decoratorOpts o else o
    let (f, r) := customizeIt o' ⟨false, false⟩
    let rs := match r with | .none => "keep" | .prune => "prune" | .replacement _ => "replace"
    pure s!"hide={pyBool f.hide} hide_line={pyBool f.hideLine} rest={rs}"
  | t => throw s!"bad kind {t}"

end SS.Drv.C12
