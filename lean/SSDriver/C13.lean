import SSDriver.Util
import SSModel.Options
namespace SS.Drv.C13
open Lean SS.Options SS.Drv

mutual
  partial def parseCall (j : Json) : Except String Call := do
    match j with
    | .str "observe" => pure .observe
    | .str "raise" => pure .raise
    | .str "abort" => pure .abort
    | _ =>
      let a ← jArr j
      let tag ← jStr a[0]!
      match tag with
      | "extract" => pure (.extract (← jBool a[1]!) (← jBool a[2]!) (← parseHooks a[3]!))
      | "outermost" => pure (.outermost (← jBool a[1]!) (← jBool a[2]!) (← parseHooks a[3]!) (← jBool a[4]!))
      | "child" => pure (.child (← jBool a[1]!) (← parseHooks a[2]!))
      | "fill" => pure (.fill (← parseActs a[1]!))
      | "catch" => pure (.catch (← parseActs a[1]!))
      | "gcm" => pure (.gcm (← parseActs a[1]!))
      | t => throw s!"bad call tag {t}"
  partial def parseActs (j : Json) : Except String Acts := do
    let a ← jArr j
    let cs ← a.toList.mapM parseCall
    pure (cs.foldr Acts.cons Acts.nil)
  partial def parseHooks (j : Json) : Except String Hooks := do
    let a ← jArr j
    let hs ← a.toList.mapM parseActs
    pure (hs.foldr Hooks.cons Hooks.nil)
end

def showCell (c : Cell) : String := s!"({pyOptBool c.wc},{pyOptBool c.rc})"

/-- Only what a hook can see through the public API is printed: enter/leave are internal. -/
def showEvent : Event → Option String
  | .obs c => some s!"obs{showCell c}"
  | .stub => some "stub"
  | .full => some "full"
  | .refused => some "refused"
  | .enter _ => none
  | .leave _ => none
  | .caught => some "caught"

def showRes (r : Res) : String :=
  " ".intercalate (r.events.filterMap showEvent) ++ s!" | raised={if r.aborted then "A" else pyBool r.raised} cell={showCell r.cell}"

/-- {"p":"C13","k":"tree","tree":<call>}  or  {"k":"threads","trees":[<call>...]} (sequential per-thread expectations). -/
def handle (j : Json) : Except String String := do
  let k ← jStr (← jField j "k")
  match k with
  | "tree" =>
    let c ← parseCall (← jField j "tree")
    pure (showRes (evalCall c Cell.unset))
  | "threads" =>
    let ts ← jArr (← jField j "trees")
    let rs ← ts.toList.mapM (fun t => do pure (showRes (evalCall (← parseCall t) Cell.unset)))
    pure (" ## ".intercalate rs)
  | _ => throw s!"bad kind {k}"

end SS.Drv.C13
