import SSDriver.Util
import SSModel.ExcTable
import SSModel.Localsplus
import SSModel.ExitSelf
namespace SS.Drv.C01
open Lean SS.ExcTable SS.Drv

def showView (v : View) : String := s!"{v.start}:{v.end_}:{v.target}:{v.depth}:{pyBool v.lasti}"
def showBlocks : Option (List Block) → String
  | none => "HANG"
  | some bs => "[" ++ ",".intercalate (bs.map fun b => s!"{b.handler}/{b.level}") ++ "]"

def toEntry (v : View) : Entry :=
  { start := v.start / 2, size := ((v.end_ + 2 - v.start) / 2).toNat, target := v.target / 2, depth := v.depth, lasti := v.lasti }

def strList (j : Json) (k : String) : Except String (List String) := do
  (← jArr (← jField j k)).toList.mapM jStr

def handleExitSelf (j : Json) : Except String String := do
  let s : SS.ExitSelf.Sig := { positional := ← strList j "positional", kwonly := ← strList j "kwonly",
                               varargs := (j.getObjValAs? String "varargs").toOption }
  let deleted ← jBool (← jField j "deleted")
  -- the exit call: exit(self = 0, 1, 2, 3); keyword-only defaults are objects 10, 11, …
  match SS.ExitSelf.bindCall s [0, 1, 2, 3] ((List.range s.kwonly.length).map (· + 10)) with
  | none => pure "typeerror"
  | some ls =>
    let ls := if deleted then (match s.positional with | p :: _ => ls.filter (fun q => q.1 != p) | [] => ls) else ls
    pure (match SS.ExitSelf.exitingObj s ls with
      | some 0 => "self"
      | some i => s!"other:{i}"
      | none => "none")

def handle (j : Json) : Except String String := do
  if (j.getObjVal? "k" >>= Json.getStr?).toOption == some "exitself" then return (← handleExitSelf j)
  if (j.getObjVal? "k" >>= Json.getStr?).toOption == some "nlocalsplus" then
    -- several code objects at once: [[varnames, cellvars, freevars], ...] → the slot counts
    let cs ← (← jArr (← jField j "codes")).toList.mapM (fun c => do
      let a ← jArr c
      let f := fun (x : Json) => do (← jArr x).toList.mapM jStr
      pure ((← f a[0]!), (← f a[1]!), (← f a[2]!)))
    return " ".intercalate (cs.map (fun (v, c, f) => toString (SS.Localsplus.slotsCode v c f)))
  let bytes ← (← jArr (← jField j "bytes")).toList.mapM jNat
  let points ← (← jArr (← jField j "points")).toList.mapM fun p => do
    let a ← jArr p
    pure ((← jNat a[0]!), (← jBool a[1]!))
  let hs := parseTable bytes
  let enc := encodeTable (hs.map toEntry) == bytes
  let head := s!"{" ".intercalate (hs.map showView)} | disjoint={pyBool (disjointB hs)} forward={pyBool (forwardB hs)} enc={pyBool enc}"
  let pts := points.map fun (p, running) =>
    if running then s!"{p}:{showBlocks (walk hs p)}:{firstCover hs p}" else s!"{p}:{showBlocks (walk hs p)}"
  pure (head ++ " | " ++ " ".intercalate pts)

end SS.Drv.C01
