import SSDriver.Util
import SSModel.FillContext
namespace SS.Drv.C11
open Lean SS.Fill SS.Drv

def optNatField (j : Json) (k : String) : Option Nat := (j.getObjVal? k >>= Json.getNat?).toOption

def parseElab (j : Json) : Except String ElabC := do
  match j with
  | .null => pure {}
  | _ =>
    let ch ← match j.getObjVal? "children" with
      | .ok c => (do pure (some (← (← jArr c).toList.mapM jNat)))
      | .error _ => pure none
    pure { setObj := optNatField j "obj", setInner := optNatField j "inner", setChildren := ch,
           setDesc := optNatField j "desc", onlyIfNotExiting := (j.getObjVal? "gcm" >>= Json.getBool?).toOption.getD false,
           raises := optNatField j "raise" }

def parseUnwrap (j : Json) : Except String UnwrapC := do
  match j with
  | .null => pure .none
  | .str "prune" => pure .prune
  | .arr a => pure (.raise (← jNat a[1]!))
  | _ => pure (.next (← jNat j))

def showOpt : Option Nat → String
  | none => "-"
  | some n => toString n

def showCall : Call → String
  | .E m => s!"E{m}"
  | .U m => s!"U{m}"

def showOutcome : Outcome → String
  | .ok => "ok"
  | .guard => "guard"
  | .raised e => s!"raised{e}"

/-- {"obj":m,"exiting":b,"mgrs":[{"id":m,"el":{..},"uw":..}]} -/
def handle (j : Json) : Except String String := do
  let mgrs ← (← jArr (← jField j "mgrs")).mapM (fun r => do
    pure ((← jNat (← jField r "id")), (← parseElab (r.getObjVal? "el" |>.toOption.getD .null)),
          (← parseUnwrap (r.getObjVal? "uw" |>.toOption.getD .null))))
  let env : Env :=
    { elabCtx := fun m => ((mgrs.find? (·.1 == m)).map (·.2.1)).getD {}
      unwrapCtx := fun m => ((mgrs.find? (·.1 == m)).map (·.2.2)).getD .none }
  let c : Ctx := ⟨← jNat (← jField j "obj"), ← jBool (← jField j "exiting"), none, [], none, false⟩
  let (c', tr, o) := fillContext env c
  let trs := if tr.length > 24 then (tr.take 12).map showCall ++ [s!"..{tr.length}.."] ++ (tr.drop (tr.length - 4)).map showCall
             else tr.map showCall
  pure s!"obj={c'.obj} hide={pyBool c'.hide} inner={showOpt c'.innerStack} children={c'.children} desc={showOpt c'.description} trace=[{" ".intercalate trs}] {showOutcome o}"

end SS.Drv.C11
