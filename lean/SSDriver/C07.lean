import SSDriver.Util
import SSModel.Snapshot
namespace SS.Drv.C07
open Lean SS.Snapshot SS.Drv

/-- {"attempts":[{"states":[[lasti,[ids..]],...]}...], "n":[n per attempt]} -/
def handle (j : Json) : Except String String := do
  let atts ← jArr (← jField j "attempts")
  let mut out : Option String := none
  let mut k := 0
  for a in atts do
    if out.isSome then break
    if k ≥ SS.Gen.snapshotRetries then break
    k := k + 1
    let n ← jNat (← jField a "n")
    let states ← (← jArr (← jField a "states")).toList.mapM (fun s => do
      let p ← jArr s
      pure (⟨← jNat p[0]!, ← (← jArr p[1]!).toList.mapM jNat⟩ : TState))
    match attempt states n with
    | .accepted l s => out := some s!"snapshot {l} {s}"
    | .retry => pure ()
  pure (out.getD "inconsistent")

end SS.Drv.C07
