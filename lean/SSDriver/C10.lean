import SSDriver.Util
import SSModel.Extract
import SSModel.Origin
namespace SS.Drv.C10
open Lean SS.Extract SS.Drv

def parseOptItem (j : Json) : Except String (Option Item) := jOptNat j

def parseOptItems (j : Json) : Except String (List (Option Item)) := do
  (← jArr j).toList.mapM parseOptItem

def parseUnwrap (j : Json) : Except String UnwrapRes := do
  match j with
  | .null => pure .none
  | _ =>
    let a ← jArr j
    match (← jStr a[0]!) with
    | "one" => pure (.one (← jNat a[1]!))
    | "tuple" => pure (.seq (← parseOptItems a[1]!))
    | "list" => pure (.seq (← parseOptItems a[1]!))
    | "iter" => pure (.iter (← parseOptItems a[1]!) (← jOptNat a[2]!))
    | "raise" => pure (.raise (← jNat a[1]!))
    | t => throw s!"bad unwrap tag {t}"

def parseElem (j : Json) : Except String Elem := do
  match j with
  | .null => pure .none
  | .str "next" => pure .next
  | _ => pure (.item (← jNat j))

def parseElab (j : Json) : Except String ElabRes := do
  match j with
  | .null => pure .none
  | _ =>
    let a ← jArr j
    match (← jStr a[0]!) with
    | "one" => pure (.one (← parseElem a[1]!))
    | "seq" => pure (.seq (← (← jArr a[1]!).toList.mapM parseElem))
    | "raise" => pure (.raise (← jNat a[1]!))
    | t => throw s!"bad elab tag {t}"

structure ItemDesc where
  id : Nat
  isFrame : Bool := false
  weakrefable : Bool := true
  genLike : Bool := false
  frameOf : Option Nat := none
  unwrap : UnwrapRes := .none
  elabNone : ElabRes := .none
  elabLeaf : ElabRes := .none
  elabFrame : ElabRes := .none
  hide : Bool := false
  ctx : List Nat := []

def parseItem (j : Json) : Except String ItemDesc := do
  let id ← jNat (← jField j "id")
  let kind ← jStr (← jField j "kind")
  match kind with
  | "thing" => pure { id, unwrap := (← parseUnwrap (← jField j "uw")) }
  | "thingnw" => pure { id, weakrefable := false, unwrap := (← parseUnwrap (← jField j "uw")) }
  | "gen" =>
    let f ← jOptNat (← jField j "frame")     -- null for an exhausted generator (gi_frame is None)
    let yf ← jOptNat (← jField j "yf")
    pure { id, genLike := true, frameOf := f, unwrap := .seq [f, yf] }
  | "frame" =>
    let el ← jField j "el"
    let (n, l, f) ← match el with
      | .obj _ => do
        pure ((← parseElab (← jField el "none")), (← parseElab (← jField el "leaf")), (← parseElab (← jField el "frame")))
      | _ => do let r ← parseElab el; pure (r, r, r)
    let hide := (j.getObjVal? "hide" >>= Json.getBool?).toOption.getD false
    let ctx ← match j.getObjVal? "ctx" with
      | .ok c => (do (← jArr c).toList.mapM jNat)
      | .error _ => pure []
    pure { id, isFrame := true, elabNone := n, elabLeaf := l, elabFrame := f, hide, ctx }
  | k => throw s!"bad item kind {k}"

def mkEnv (items : Array ItemDesc) (wc : Bool) : Env :=
  let get (i : Nat) : ItemDesc := (items.find? (·.id == i)).getD { id := i }
  { isFrame := fun i => (get i).isFrame
    unwrap := fun i => (get i).unwrap
    elabFn := fun i v => match v with
      | .none => (get i).elabNone
      | .leaf _ => (get i).elabLeaf
      | .frame _ => (get i).elabFrame
    elabHide := fun i => (get i).hide
    weakrefable := fun i => (get i).weakrefable
    genLike := fun i => (get i).genLike
    frameOf := fun i => (get i).frameOf
    withContexts := wc
    ctxErrs := fun i => (get i).ctx }

def showOptItem : Option Item → String
  | none => "-"
  | some i => toString i

def showObj : Obj → String
  | .item i => s!"i{i}"
  | .none => "None"
  | .frameObj f => s!"F{f.pyframe}"

def showErr : Err → String
  | .hook e => s!"h{e}"
  | .guard => "guard"

def showFrame (f : OutFrame) : String := s!"{f.frame.pyframe}:{showOptItem f.frame.origin}:{pyBool f.hide}"

def showLeaf : Leaf → String
  | .none => "None"
  | .one o => showObj o
  | .many os => "[" ++ ",".intercalate (os.map showObj) ++ "]"

def showOutcome : Outcome → String
  | .outOfFuel => "DIVERGES"
  | .done fs l es =>
    "frames=[" ++ " ".intercalate (fs.map showFrame) ++ "] leaf=" ++ showLeaf l ++ " errors=[" ++ ",".intercalate (es.map showErr) ++ "]"

def showOutermost : OutermostRes → String
  | .frame f => "frame=" ++ showFrame f
  | .raiseGroup es => "raise group[" ++ ",".intercalate (es.map showErr) ++ "]"
  | .raiseRecorded e => "raise " ++ showErr e
  | .raiseNoFrame _ => "raise noframe"
  | .outOfFuel => "DIVERGES"

def parseKind (s : String) : SS.Origin.Kind :=
  match s with
  | "coroutine" => .coroutine | "generator" => .generator | "asyncgen" => .asyncGenerator
  | "other" => .other true | "othernw" => .other false | _ => .none

/-- `{"mode":"better_origin","pairs":[[cand,fallback],...]}` → "c"/"f" per pair. -/
def handleOrigin (j : Json) : Except String String := do
  let ps ← (← jArr (← jField j "pairs")).toList.mapM (fun p => do
    let a ← jArr p
    pure (parseKind (← jStr a[0]!), parseKind (← jStr a[1]!)))
  pure (" ".intercalate (ps.map (fun (c, f) => match SS.Origin.betterOrigin c f with | .candidate => "c" | .fallback => "f")))

def handle (j : Json) : Except String String := do
  if (j.getObjVal? "mode" >>= Json.getStr?).toOption == some "better_origin" then return (← handleOrigin j)
  let items ← (← jArr (← jField j "items")).mapM parseItem
  let wc := (j.getObjVal? "wc" >>= Json.getBool?).toOption.getD false
  let x ← jNat (← jField j "x")
  let fuel := (j.getObjVal? "fuel" >>= Json.getNat?).toOption.getD 3000
  let env := mkEnv items wc
  let mode := (j.getObjVal? "mode" >>= Json.getStr?).toOption.getD "extract"
  if mode == "outermost" then
    pure (showOutermost (extractOutermost env fuel x))
  else
    pure (showOutcome (extract env fuel x))

end SS.Drv.C10
