import SSDriver.Util
import SSModel.Format
import SSModel.ErrLines
namespace SS.Drv.C18
open Lean SS.Format SS.Drv

def optStr (j : Json) (k : String) : Option String :=
  match j.getObjVal? k with
  | .ok (.str s) => some s
  | _ => none

def optNat (j : Json) (k : String) : Option Nat := (j.getObjVal? k >>= Json.getNat?).toOption
def getB (j : Json) (k : String) : Bool := (j.getObjVal? k >>= Json.getBool?).toOption.getD false
def getS (j : Json) (k : String) : String := (optStr j k).getD ""

mutual
  partial def parseStack (j : Json) : Except String Stack := do
    let frames ← (← jArr (← jField j "frames")).toList.mapM parseFrame
    let err ← match j.getObjVal? "error" with
      | .ok (.arr a) => (do pure (some (← a.toList.mapM jStr)))
      | _ => pure none
    pure (.mk (optStr j "root") (frames.foldr Frames.cons Frames.nil) (optStr j "leaf") err)
  partial def parseFrame (j : Json) : Except String Frame := do
    let ctxs ← (← jArr (← jField j "contexts")).toList.mapM parseContext
    pure (.mk (getS j "head") (getS j "file") (getS j "func") ((optNat j "lineno").getD 0) (getS j "code") (getB j "hide")
          (ctxs.foldr Contexts.cons Contexts.nil))
  partial def parseContext (j : Json) : Except String Context := do
    let inner ← match j.getObjVal? "inner" with
      | .ok (.obj o) => (do pure (some (← parseStack (.obj o))))
      | _ => pure none
    let chJ ← jArr (← jField j "children")
    let ch ← chJ.toList.mapM (fun c => do
      if (c.getObjVal? "frames").toOption.isSome then
        pure (Sum.inr (← parseStack c))
      else pure (Sum.inl (← parseContext c)))
    let children := ch.foldr (fun x acc => match x with | .inl c => Children.ctx c acc | .inr s => Children.stack s acc) Children.nil
    pure (.mk (getS j "src") (optStr j "desc") (getB j "async") (optStr j "objtype") (optStr j "varname") (optNat j "start_line")
          (getB j "hide") (getB j "exiting") (getS j "repr") (getS j "reprobj") inner children)
end

def esc (s : String) : String := s.replace "\n" "⏎"

/-- `lookup` = the stripped linecache text for (file, lineno), supplied by the harness (stdlib behaviour). -/
def showSummary (lookup : Nat → String) (s : Summary) : String :=
  s!"{s.filename}|{s.lineno}|{s.name}|L:{match s.line with | some l => l | none => lookup s.lineno}|{match s.ctxLocal with | some l => "C:" ++ l | none => "-"}"

/-- `{"k":"errlines","lines":[[code points of one traceback element], ...]}` → the elements `_format_error` yields for
them, as code points (elements separated by a space, code points by a dash). -/
def handleErrLines (j : Json) : Except String String := do
  let ls ← (← jArr (← jField j "lines")).toList.mapM (fun l => do
    let cs ← (← jArr l).toList.mapM jNat
    pure (cs.map Char.ofNat))
  let out := (ls.map SS.ErrLines.sublines).flatten
  pure (" ".intercalate (out.map (fun s => "-".intercalate (s.map (fun c => toString c.toNat)))))

def handle (j : Json) : Except String String := do
  if (optStr j "k") == some "errlines" then return (← handleErrLines j)
  let st ← parseStack (← jField j "stack")
  let k := (optStr j "k").getD "format"
  let srcTab : List (Nat × String) := match j.getObjVal? "srclines" with
    | .ok (.arr a) => a.toList.filterMap (fun r => match r with
        | .arr p => (do let n ← (p[0]!.getNat?).toOption; let t ← (p[1]!.getStr?).toOption; pure (n, t))
        | _ => none)
    | _ => []
  let lookup : Nat → String := fun n => ((srcTab.find? (·.1 == n)).map (·.2)).getD ""
  match k with
  | "format" =>
    let o : Opts := ⟨getB j "ascii", getB j "contexts", getB j "hidden"⟩
    pure ("¦".intercalate ((format o st).map esc))
  | "summary" =>
    pure ("¦".intercalate ((sumStack (getB j "contexts") (getB j "hidden") (getB j "locals") st).map (showSummary lookup)))
  | "flat" =>
    let f := formatFlat (getB j "contexts") st
    let sm := match f.summary with | none => "nosummary" | some l => "¦".intercalate (l.map (showSummary lookup))
    pure (esc f.header ++ "§" ++ sm ++ "§" ++ esc ((f.leafLine).getD "") ++ "§" ++ "¦".intercalate (f.errorBlock.map esc))
  | t => throw s!"bad kind {t}"

end SS.Drv.C18
