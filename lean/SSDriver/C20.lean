import SSDriver.Util
import SSModel.Trickery
import SSModel.Gen.Consts
namespace SS.Drv.C20
open Lean SS.Trickery SS.Drv

def parseOp (j : Json) : Except String Op := do
  match j with
  | .str "query" => pure .query
  | _ =>
    let a ← jArr j
    pure (.set (← jOptBool a[1]!))

def handleFast (j : Json) : Except String String := do
  let v0 ← jOptBool (← jField j "v0")
  let v1 ← jOptBool (← jField j "v1")
  -- the setting is v0 at the call's first read and v1 from its second step on; auto-detection succeeds on CPython
  pure (pyOptBool (checkConc SS.Gen.trickeryFastPathReads true (fun k => if k = 0 then v0 else v1)))

def handle (j : Json) : Except String String := do
  if (j.getObjValAs? String "mode").toOption == some "fastpath" then return (← handleFast j)
  let ops ← (← jArr (← jField j "ops")).toList.mapM parseOp
  pure (" ".intercalate ((run true ops none).map pyBool))

end SS.Drv.C20
