import SSDriver.Util
import SSModel.Trickery
namespace SS.Drv.C20
open Lean SS.Trickery SS.Drv

def parseOp (j : Json) : Except String Op := do
  match j with
  | .str "query" => pure .query
  | _ =>
    let a ← jArr j
    pure (.set (← jOptBool a[1]!))

def handle (j : Json) : Except String String := do
  let ops ← (← jArr (← jField j "ops")).toList.mapM parseOp
  pure (" ".intercalate ((run true ops none).map pyBool))

end SS.Drv.C20
