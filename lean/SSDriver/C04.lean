import SSDriver.Util
import SSModel.Slice
namespace SS.Drv.C04
open Lean SS.Slice SS.Drv

def showFrames (fs : List Frame) : String := "[" ++ ",".intercalate (fs.map toString) ++ "]"

def handle (j : Json) : Except String String := do
  let segs ← (← jArr (← jField j "segs")).toList.mapM (fun s => do (← jArr s).toList.mapM jNat)
  let others ← match j.getObjVal? "others" with
    | .ok a => (do (← jArr a).toList.mapM (fun s => do (← jArr s).toList.mapM jNat))
    | .error _ => pure []
  let threads ← match j.getObjVal? "threads" with
    | .ok a => (do (← jArr a).toList.mapM jNat)
    | .error _ => pure []
  let w : World := ⟨segs, others, threads⟩
  let k := (j.getObjVal? "k" >>= Json.getStr?).toOption.getD "slice"
  match k with
  | "slice" =>
    let outer ← jOptNat (← jField j "outer")
    let inner ← jOptNat (← jField j "inner")
    let limit ← jOptNat (← jField j "limit")
    match unwrapSlice w outer inner limit with
    | .frames fs => pure ("frames=" ++ showFrames fs)
    | .notRunning o => pure s!"frames=[{o}] error=notrunning"
  | "greenlet" =>
    -- {"state":"current"|"suspended"|"notstarted"|"dead"|"other","gframes":[..],"hasparent":b}
    let st ← jStr (← jField j "state")
    let gfs ← match j.getObjVal? "gframes" with
      | .ok a => (do (← jArr a).toList.mapM jNat)
      | .error _ => pure []
    let g : GState := match st with
      | "current" => .current | "suspended" => .suspended gfs | "notstarted" => .notStarted | "dead" => .dead | _ => .otherThread
    match unwrapGreenlet w g ((j.getObjVal? "hasparent" >>= Json.getBool?).toOption.getD true) with
    | .none => pure "frames=[]"
    | .error => pure "frames=[] error=otherthread"
    | .slice o i =>
      match unwrapSlice w o i none with
      | .frames fs => pure ("frames=" ++ showFrames fs)
      | .notRunning o => pure s!"frames=[{o}] error=notrunning"
  | t => throw s!"bad kind {t}"

end SS.Drv.C04
