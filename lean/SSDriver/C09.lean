import SSDriver.Util
import SSModel.ExitStack
namespace SS.Drv.C09
open Lean SS.ExitStack SS.Drv

def parseOp (j : Json) : Except String Op := do
  let a ← jArr j
  let n ← jNat a[1]!
  match (← jStr a[0]!) with
  | "enter_context" => pure (.enterContext n)
  | "push_mgr" => pure (.pushManager n)
  | "push_fn" => pure (.pushFunction n)
  | "push_bound" => pure (.pushBoundMethod n 0)
  | "push_builtin_bound" => pure (.pushBuiltinBound n)
  | "push_builtin_fn" => pure (.pushBuiltinFunction n)
  | "enter_context_aliased" => pure (.enterContextAliased n)
  | "enter_async_context_aliased" => pure (.enterAsyncContextAliased n)
  | "callback" => pure (.callback n)
  | "enter_async_context" => pure (.enterAsyncContext n)
  | "push_async_exit_mgr" => pure (.pushAsyncExitManager n)
  | "push_async_exit_fn" => pure (.pushAsyncExitFunction n)
  | "push_async_callback" => pure (.pushAsyncCallback n)
  | t => throw s!"bad op {t}"

def showMethod : Method → String
  | .enterContext => "enter_context" | .enterAsyncContext => "enter_async_context" | .push => "push"
  | .pushAsyncExit => "push_async_exit" | .callback => "callback" | .pushAsyncCallback => "push_async_callback"

def showObj : ChildObj → String
  | .manager m => s!"m{m}"
  | .callable (.exitWrapper f) => s!"w{f}"
  | .callable (.plain f) => s!"f{f}"
  | .callable (.builtinFunction f) => s!"f{f}"
  | .callable _ => "?"

def showChild (c : Child) : String :=
  s!"{c.index}:{showObj c.obj}:{if c.isAsync then "async" else "sync"}:{if c.awaitTag then "await " else ""}{showMethod c.method}"

def parseEv (j : Json) : Except String Ev := do
  let a ← jArr j
  match (← jStr a[0]!) with
  | "pop_all" => pure .popAll
  | "pop_one" => pure .popOne
  | _ => pure (.reg (← parseOp j))

def showKids (es : List Entry) : String := " ".intercalate ((elaborate es).map showChild)

def handle (j : Json) : Except String String := do
  if let .ok evs := jField j "evs" then
    let evs ← (← jArr evs).toList.mapM parseEv
    let s := runEvs evs
    let nomoved := (jField j "nomoved" >>= fun b => b.getBool?).toOption.getD false
    return s!"{showKids s.cur} | {if nomoved then "-" else showKids s.moved}"
  let ops ← (← jArr (← jField j "ops")).toList.mapM parseOp
  pure (" ".intercalate ((elaborate (ops.map register)).map showChild))

end SS.Drv.C09
