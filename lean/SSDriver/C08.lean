import SSDriver.Util
import SSLemmas.Target
namespace SS.Drv.C08
open Lean SS.Target SS.Drv

def parseInsn (j : Json) : Except String Insn := do
  let a ← jArr j
  pure { op := ← jStr a[0]!, argval := ← jStr a[1]!, arg := ← jNat a[2]!, argrepr := ← jStr a[3]! }

def parseScope (s : String) : Except String Scope :=
  match s with
  | "fast" => pure .fast | "global" => pure .global | "name" => pure .name | "deref" => pure .deref
  | _ => throw s!"scope {s}"

mutual
  partial def parseExpr (j : Json) : Except String Expr := do
    let a ← jArr j
    match (← jStr a[0]!) with
    | "var" => pure (.var (← parseScope (← jStr a[1]!)) (← jStr a[2]!))
    | "const" => pure (.const (← jStr a[1]!))
    | "attr" => pure (.attr (← parseExpr a[1]!) (← jStr a[2]!))
    | "subscr" => pure (.subscr (← parseExpr a[1]!) (← parseExpr a[2]!))
    | "call" => pure (.call (← jBool a[1]!) (← parseExpr a[2]!) (← parseArgs (← jArr a[3]!).toList))
    | "super" => pure (.superAttr (← jBool a[1]!) (← parseExpr a[2]!) (← parseExpr a[3]!) (← jStr a[4]!))
    | k => throw s!"expr kind {k}"
  partial def parseArgs (js : List Json) : Except String Args :=
    match js with
    | [] => pure .nil
    | x :: xs => do pure (.cons (← parseExpr x) (← parseArgs xs))
end

mutual
  partial def parseTgt (j : Json) : Except String Tgt := do
    let a ← jArr j
    match (← jStr a[0]!) with
    | "var" => pure (.var (← parseScope (← jStr a[1]!)) (← jStr a[2]!))
    | "attr" => pure (.attr (← parseExpr a[1]!) (← jStr a[2]!))
    | "subscr" => pure (.subscr (← parseExpr a[1]!) (← parseExpr a[2]!))
    | "tuple" => pure (.tuple (← parseTgts (← jArr a[1]!).toList))
    | "starred" => pure (.starred (← parseTgts (← jArr a[1]!).toList) (← parseTgt a[2]!) (← parseTgts (← jArr a[3]!).toList))
    | k => throw s!"target kind {k}"
  partial def parseTgts (js : List Json) : Except String Tgts :=
    match js with
    | [] => pure .nil
    | x :: xs => do pure (.cons (← parseTgt x) (← parseTgts xs))
end

def showInsn (i : Insn) : String := s!"{i.op}/{i.argval}/{i.arg}/{i.argrepr}"

def handle (j : Json) : Except String String := do
  match j.getObjVal? "tgt" with
  | .ok tj =>
    -- the model of the compiler: what it emits for this target, and what the machine makes of that
    let t ← parseTgt tj
    let code := compileStore t
    let txt := match describeTarget code with | some s => "S:" ++ s | none => "None"
    pure (" ".intercalate (code.map showInsn) ++ " => " ++ txt ++ " => " ++ renderTgt t)
  | .error _ =>
    let is ← (← jArr (← jField j "insns")).toList.mapM parseInsn
    match describeTarget is with
    | some s => pure ("S:" ++ s)
    | none => pure "None"

end SS.Drv.C08
