import SSDriver.Util
import SSModel.Target
namespace SS.Drv.C08
open Lean SS.Target SS.Drv

def parseInsn (j : Json) : Except String Insn := do
  let a ← jArr j
  pure { op := ← jStr a[0]!, argval := ← jStr a[1]!, arg := ← jNat a[2]!, argrepr := ← jStr a[3]! }

def handle (j : Json) : Except String String := do
  let is ← (← jArr (← jField j "insns")).toList.mapM parseInsn
  match describeTarget is with
  | some s => pure ("S:" ++ s)
  | none => pure "None"

end SS.Drv.C08
