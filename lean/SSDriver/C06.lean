import SSDriver.Util
import SSModel.Purity
namespace SS.Drv.C06
open Lean SS.Purity SS.Drv

def natList (xs : List Nat) : String := "[" ++ ", ".intercalate (xs.map toString) ++ "]"

def handle (j : Json) : Except String String := do
  let op ← jStr (← jField j "op")
  match op with
  | "refs" =>
    let base ← (← jArr (← jField j "base")).toList.mapM jNat
    let slots ← (← jArr (← jField j "slots")).toList.mapM jOptNat
    let len ← jNat (← jField j "len")
    let k ← jNat (← jField j "k")
    let h : Heap := fun i => base.getD i 0
    let refs := readSlots base.length slots len
    let ids := List.range base.length
    let during := holdN h refs k
    let after := releaseN during refs k
    pure s!"during {natList (ids.map during)} after {natList (ids.map after)}"
  | "helpers" =>
    let ops ← match j.getObjVal? "ops" with
      | .ok a => (← jArr a).toList.mapM jStr
      | .error _ => pure SS.Gen.helperOps
    match hrun ops with
    | none => pure "unknown-op"
    | some s => pure s!"raised={pyBool s.raised} finalizer={pyBool (finalizerFires s)} neverAwaited={pyBool (neverAwaited s)}"
  | "census" =>
    let unknown := SS.Gen.stateCensus.filter (fun g => (classify g).isNone)
    pure (if unknown.isEmpty then s!"classified {SS.Gen.stateCensus.length}" else "unclassified " ++ ", ".intercalate unknown)
  | _ => throw s!"C06: unknown op {op}"

end SS.Drv.C06
