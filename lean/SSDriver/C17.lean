import SSDriver.Util
import SSModel.Glue
namespace SS.Drv.C17
open Lean SS.Glue SS.Drv

def showEv : Ev → String
  | .ranMod m => s!"mod{m}"
  | .ranBuiltin m => s!"builtin{m}"
  | .warn m => s!"warn{m}"
  | .returned => "ret"

def parseOp (j : Json) : Except String OpR := do
  let a ← jArr j
  match (← jStr a[0]!) with
  | "insert" => pure (.insert (← jNat a[1]!))
  | "remove" => pure (.remove (← jNat a[1]!))
  | "extract" => pure (.extract [])
  | "extractR" => pure (.extract (← (← jArr a[1]!).toList.mapM jNat))     -- these modules vanish during the scan
  | t => throw s!"bad op {t}"

/-- {"mods":[[id,hasMod,hasBuiltin,modRaises,builtinRaises]...],"ops":[...]} -/
def handle (j : Json) : Except String String := do
  let mods ← (← jArr (← jField j "mods")).mapM (fun r => do
    let a ← jArr r
    pure ((← jNat a[0]!), (← jBool a[1]!), (← jBool a[2]!), (← jBool a[3]!), (← jBool a[4]!)))
  let get (m : Nat) : (Nat × Bool × Bool × Bool × Bool) := (mods.find? (·.1 == m)).getD (m, false, false, false, false)
  let st : Static := { hasModGlue := fun m => (get m).2.1, hasBuiltin := fun m => (get m).2.2.1,
                       modRaises := fun m => (get m).2.2.2.1, builtinRaises := fun m => (get m).2.2.2.2 }
  let ops ← (← jArr (← jField j "ops")).toList.mapM parseOp
  let g := runOpsR st ops
  pure (" ".intercalate (g.log.map showEv))

end SS.Drv.C17
