import SSDriver.Util
import SSModel.Glue
import SSModel.GlueConc
namespace SS.Drv.C17
open Lean SS.Glue SS.Drv

def showEv : Ev → String
  | .ranMod m => s!"mod{m}"
  | .ranBuiltin m => s!"builtin{m}"
  | .warn m => s!"warn{m}"
  | .returned => "ret"

/-- An op of the sequential histories: one of `OpR`, or an extraction during whose scan modules appear. -/
inductive DOp
  | r (op : OpR)
  | appear (ms : List Nat)
  | initializing (ms : List Nat)

def parseOp (j : Json) : Except String DOp := do
  let a ← jArr j
  match (← jStr a[0]!) with
  | "insert" => pure (.r (.insert (← jNat a[1]!)))
  | "remove" => pure (.r (.remove (← jNat a[1]!)))
  | "extract" => pure (.r (.extract []))
  | "extractR" => pure (.r (.extract (← (← jArr a[1]!).toList.mapM jNat)))     -- these modules vanish during the scan
  | "extractA" => pure (.appear (← (← jArr a[1]!).toList.mapM jNat))           -- these modules appear during the scan
  | "extractI" => pure (.initializing (← (← jArr a[1]!).toList.mapM jNat))     -- these modules are still being imported
  | t => throw s!"bad op {t}"

def dstep (st : Static) (g : GState) : DOp → GState
  | .r op => stepR st g op
  | .appear ms => addGlueA st g ms
  | .initializing ms => addGlueI st g ms

/-- Step thread `t` until it has popped for module `m` (its glue call is pending). -/
def untilPopped (st : Static) (c : SS.GlueConc.CState) (t m : Nat) : Nat → SS.GlueConc.CState
  | 0 => c
  | f + 1 =>
    match c.pcs[t]? with
    | some (.popped m' _ _ _ _ _) => if m' == m then c else untilPopped st (SS.GlueConc.cstep st c t) t m f
    | _ => untilPopped st (SS.GlueConc.cstep st c t) t m f

/-- Step thread `t` until it is back at `idle` (after having left it) or cannot move (waiting for the lock). -/
def untilStuck (st : Static) (c : SS.GlueConc.CState) (t : Nat) : Nat → Bool → SS.GlueConc.CState
  | 0, _ => c
  | f + 1, left =>
    match c.pcs[t]? with
    | some .idle => if left then c else untilStuck st (SS.GlueConc.cstep st c t) t f true
    | some .wantLock => if c.lock.isSome then c else untilStuck st (SS.GlueConc.cstep st c t) t f true
    | _ => untilStuck st (SS.GlueConc.cstep st c t) t f true

/-- {"mods":[[id,hasMod,hasBuiltin,modRaises,builtinRaises]...],"ops":[...]} -/
def handle (j : Json) : Except String String := do
  let mods ← (← jArr (← jField j "mods")).mapM (fun r => do
    let a ← jArr r
    pure ((← jNat a[0]!), (← jBool a[1]!), (← jBool a[2]!), (← jBool a[3]!), (← jBool a[4]!)))
  let get (m : Nat) : (Nat × Bool × Bool × Bool × Bool) := (mods.find? (·.1 == m)).getD (m, false, false, false, false)
  let st : Static := { hasModGlue := fun m => (get m).2.1, hasBuiltin := fun m => (get m).2.2.1,
                       modRaises := fun m => (get m).2.2.2.1, builtinRaises := fun m => (get m).2.2.2.2 }
  match j.getObjVal? "sched" with
  | .ok sj =>
    -- several threads: a schedule of macro moves over SS.GlueConc.cstep
    let n ← jNat (← jField j "threads")
    let items ← (← jArr sj).toList.mapM (fun r => do
      let a ← jArr r
      pure ((← jStr a[0]!), (← jNat a[1]!), (if a.size > 2 then (a[2]!.getNat?.toOption.getD 0) else 0)))
    let c := items.foldl (fun (c : SS.GlueConc.CState) (it : String × Nat × Nat) =>
      match it.1 with
      | "insert" => SS.GlueConc.cmove st c (.insert it.2.1)
      | "remove" => SS.GlueConc.cmove st c (.remove it.2.1)
      | "until_popped" => untilPopped st c it.2.1 it.2.2 400
      | "until_stuck" => untilStuck st c it.2.1 400 false
      | _ => c) (SS.GlueConc.cinit n)
    pure (" ".intercalate (c.g.log.map showEv))
  | .error _ =>
    let ops ← (← jArr (← jField j "ops")).toList.mapM parseOp
    let g := ops.foldl (dstep st) GState.init
    pure (" ".intercalate (g.log.map showEv))

end SS.Drv.C17
