/-
M-H (part 1): the per-thread option cell of `_extract.py`
(`ExtractOptions(threading.local)`, `ExtractOptions.push`, `extract`, `extract_outermost`,
`extract_child`, `fill_context`'s outside-extract branch).

Python being modelled (stackscope/_extract.py):

    class ExtractOptions(threading.local):
        with_contexts = None ; recurse_child_tasks = None
        @contextmanager
        def push(self, *, with_contexts, recurse_child_tasks):
            prev = (self.with_contexts, self.recurse_child_tasks)
            self.with_contexts = with_contexts; self.recurse_child_tasks = recurse_child_tasks
            try: yield
            finally: (self.with_contexts, self.recurse_child_tasks) = prev

A *call tree* describes what the user's hooks do during one top-level call: every hook invocation is
a list of actions; an action is a nested API call, an observation of the options, a raise of an ordinary
exception (contained by the extraction that called the hook), a raise of a `BaseException` such as
KeyboardInterrupt ("abort": `extract_iter` only catches `Exception`, so it unwinds through every enclosing
extraction — and through every `push`, whose `finally` still restores the options), or a hook body that catches
such an abort and carries on.
-/
namespace SS.Options

/-- The two thread-local attributes; `none` is Python's class-level default `None`. -/
structure Cell where
  wc : Option Bool
  rc : Option Bool
  deriving DecidableEq, Repr, Inhabited

def Cell.unset : Cell := ⟨none, none⟩

/-- What a hook can see through the public API. -/
inductive Event
  | obs (c : Cell)            -- a hook looked at the options (via extract_child stub-or-not / contexts filled-or-not)
  | stub                      -- extract_child(for_task=True) returned a frameless stub
  | full                      -- extract_child ran a full extraction
  | refused                   -- extract_child raised RuntimeError (outside any extract)
  | enter (c : Cell)          -- push() installed c
  | leave (c : Cell)          -- push() restored c
  | caught                    -- a hook caught a BaseException that was unwinding through nested extractions
  deriving DecidableEq, Repr

mutual
  /-- One action performed by a hook. -/
  inductive Call
    | extract (wc rc : Bool) (hooks : Hooks)      -- stackscope.extract(x, with_contexts, recurse_child_tasks)
    | outermost (wc rc : Bool) (hooks : Hooks) (noFrame : Bool)  -- extract_outermost; raises at the end iff noFrame
    | child (forTask : Bool) (hooks : Hooks)      -- extract_child(x, for_task=forTask)
    | fill (hook : Acts)                          -- fill_context(ctx): its elaborate/unwrap hooks do `hook`
    | observe
    | raise
    | abort                                       -- raise a BaseException that is not an Exception
    | catch (body : Acts)                         -- try: body  except <that BaseException>: pass
    | gcm (hook : Acts)                           -- extract_child of a frame holding a @contextmanager whose generator holds a
                                                  -- manager with a hook: reached through the contextlib glue (extract_child again)
  /-- The actions of one hook invocation, in order. -/
  inductive Acts
    | nil
    | cons (c : Call) (rest : Acts)
  /-- The hook invocations made during one extraction, in order; each is wrapped in its own `try`. -/
  inductive Hooks
    | nil
    | cons (h : Acts) (rest : Hooks)
end

structure Res where
  cell : Cell
  events : List Event
  raised : Bool               -- ended by an ordinary exception
  aborted : Bool              -- ended by a BaseException
  deriving Repr

mutual
  /-- Big-step semantics of one action on the calling thread's cell. -/
  def evalCall : Call → Cell → Res
    | .extract wc rc hooks, c =>
        -- with current_options.push(...): return extract_child(stackitem, for_task=False)
        let new : Cell := ⟨some wc, some rc⟩
        let r := evalHooks hooks new
        -- `finally` restores prev whatever happened; extract itself never raises an Exception (C05)
        ⟨c, [.enter new] ++ r.events ++ [.leave c], false, r.aborted⟩
    | .outermost wc rc hooks noFrame, c =>
        let new : Cell := ⟨some wc, some rc⟩
        let r := evalHooks hooks new
        ⟨c, [.enter new] ++ r.events ++ [.leave c], noFrame && !r.aborted, r.aborted⟩
    | .child forTask hooks, c =>
        match c.rc with
        | none => ⟨c, [.refused], true, false⟩
        | some rc =>
          if forTask && !rc then ⟨c, [.stub], false, false⟩
          else
            let r := evalHooks hooks c
            ⟨r.cell, [.full] ++ r.events, false, r.aborted⟩
    | .fill hook, c =>
        match c.wc with
        | none =>
          -- with current_options.push(with_contexts=True, recurse_child_tasks=False): fill_context(context)
          let new : Cell := ⟨some true, some false⟩
          let r := evalActs hook new
          ⟨c, [.enter new] ++ r.events ++ [.leave c], r.raised, r.aborted⟩
        | some _ =>
          evalActs hook c
    | .observe, c => ⟨c, [.obs c], false, false⟩
    | .raise, c => ⟨c, [], true, false⟩
    | .abort, c => ⟨c, [], false, true⟩
    | .catch body, c =>
        let r := evalActs body c
        ⟨r.cell, r.events ++ (if r.aborted then [.caught] else []), r.raised, false⟩
    | .gcm hook, c =>
        match c.rc with
        | none => ⟨c, [.refused], true, false⟩
        | some _ =>
          -- contexts (and so the manager inside the generator) are only looked at when with_contexts is on; the hook runs
          -- under the *current* options: nothing is pushed on the way down
          if c.wc == some true then
            let r := evalActs hook c          -- one hook invocation: an ordinary exception is contained, a BaseException is not
            ⟨r.cell, [.full] ++ r.events, false, r.aborted⟩
          else ⟨c, [.full], false, false⟩
  /-- A hook body: stop at the first action that raises or aborts. -/
  def evalActs : Acts → Cell → Res
    | .nil, c => ⟨c, [], false, false⟩
    | .cons a rest, c =>
        let r := evalCall a c
        if r.raised || r.aborted then r
        else
          let r' := evalActs rest r.cell
          ⟨r'.cell, r.events ++ r'.events, r'.raised, r'.aborted⟩
  /-- The hook invocations of one extraction: an ordinary exception is contained (saved to `errors`) and the
  next hook runs; a BaseException is not, and ends the extraction. -/
  def evalHooks : Hooks → Cell → Res
    | .nil, c => ⟨c, [], false, false⟩
    | .cons h rest, c =>
        let r := evalActs h c
        if r.aborted then ⟨r.cell, r.events, false, true⟩
        else
          let r' := evalHooks rest r.cell
          ⟨r'.cell, r.events ++ r'.events, false, r'.aborted⟩
end

/-! ### Threads: each thread owns one cell (threading.local) -/

abbrev Tid := Nat

/-- A store of per-thread cells. -/
def Store := Tid → Cell

def Store.set (σ : Store) (t : Tid) (c : Cell) : Store := fun u => if u = t then c else σ u

/-- A deterministic thread program at the granularity of single attribute accesses: given everything
the thread has read so far, its next primitive operation. -/
inductive Prim
  | write (c : Cell)   -- self.with_contexts = ..; self.recurse_child_tasks = ..
  | read               -- any read of current_options.*
  deriving DecidableEq, Repr

abbrev Strategy := List Cell → Option Prim

structure TState where
  cell : Cell
  reads : List Cell      -- read history, most recent last
  steps : Nat

/-- One step of a thread running alone. -/
def soloStep (p : Strategy) (s : TState) : TState :=
  match p s.reads with
  | none => s
  | some (.write c) => { s with cell := c, steps := s.steps + 1 }
  | some .read => { s with reads := s.reads ++ [s.cell], steps := s.steps + 1 }

def soloRun (p : Strategy) : Nat → TState → TState
  | 0, s => s
  | n+1, s => soloRun p n (soloStep p s)

/-- Global machine: a schedule is the list of thread ids that get to take one step each. -/
def globalStep (progs : Tid → Strategy) (g : Tid → TState) (t : Tid) : Tid → TState :=
  fun u => if u = t then soloStep (progs t) (g t) else g u

def globalRun (progs : Tid → Strategy) (g : Tid → TState) (sched : List Tid) : Tid → TState :=
  sched.foldl (globalStep progs) g

end SS.Options
