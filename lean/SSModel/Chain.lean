import SSModel.Extract
/-
M-F (the part C03 needs): suspended await / yield-from chains as hook environments.

A *link* is either a generator-like object `g` (coroutine, generator, async generator) whose built-in
unwrapper returns `(own frame f, what it awaits)`, or a wrapper `w` (coroutine_wrapper,
async_generator_asend / athrow awaitable) whose unwrapper returns the single object it wraps.
`IsChain env links cur leaf` says that, in `env`, starting from object `cur` the links are exactly
`links` and the chain ends in `leaf` (a non-frame object that cannot be unwrapped, or nothing).
This is also the path an exception thrown into the root propagates along (CPython's gen_throw follows
exactly these delegation links): `throwPath`.
-/
namespace SS.Extract

inductive Link
  | gen (g f : Item)
  | wrap (w : Item)
  deriving DecidableEq, Repr

def IsChain (env : Env) : List Link → Option Item → Option Item → Prop
  | [], cur, leaf =>
      cur = leaf ∧ ∀ t, leaf = some t → env.isFrame t = false ∧ (env.unwrap t).raised = none ∧ (env.unwrap t).isNone = true
  | .gen g f :: rest, cur, leaf =>
      cur = some g ∧ env.isFrame g = false ∧ env.isFrame f = true ∧ env.genLike g = true ∧ env.frameOf g = some f
      ∧ env.weakrefable g = true ∧ env.genLike f = false
      ∧ ∃ nxt, env.unwrap g = .seq [some f, nxt] ∧ IsChain env rest nxt leaf
  | .wrap w :: rest, cur, leaf =>
      cur = some w ∧ env.isFrame w = false ∧ env.genLike w = false
      ∧ ∃ nxt, env.unwrap w = .one nxt ∧ IsChain env rest (some nxt) leaf

/-- The 100-step counter is never exceeded along the chain: it counts consecutive unwraps that did not
reach a frame, so only runs of consecutive wrappers (and the final leaf probe) matter. -/
def RunsOK : List Link → Option Item → Nat → Prop
  | [], leaf, c => leaf = none ∨ c + 1 ≤ SS.Gen.unwrapGuard
  | .gen _ _ :: rest, leaf, c => c + 1 ≤ SS.Gen.unwrapGuard ∧ RunsOK rest leaf 0
  | .wrap _ :: rest, leaf, c => c + 1 ≤ SS.Gen.unwrapGuard ∧ RunsOK rest leaf (c + 1)

/-- The frames an exception thrown into the root unwinds through, outermost first, each with its owner. -/
def throwPath : List Link → List FrameRec
  | [] => []
  | .gen g f :: rest => ⟨f, some g⟩ :: throwPath rest
  | .wrap _ :: rest => throwPath rest

def leafOf : Option Item → Leaf
  | none => .none
  | some t => .one (.item t)

/-- No frame of the chain has an `elaborate_frame` customization, and context analysis raises nothing. -/
def PlainFrames (env : Env) : Prop :=
  (∀ i v, env.elabFn i v = .none) ∧ (∀ i, env.elabHide i = false)
  ∧ (∀ i, (if env.withContexts then (env.ctxErrs i).map Err.hook else []) = [])

end SS.Extract
