/-
M-B (part): `describe_assignment_target` of stackscope/_lowlevel.py — the symbolic stack machine that turns
the store instructions after `BEFORE_WITH` into the text of the `as` target — and a model of what CPython's
compiler emits for a store target (`compileStore`), for the documented supported grammar.
-/
namespace SS.Target

/-- A decoded instruction as `dis` presents it: name, `argval` rendered as text (names) or number
(counts), and `argrepr` (used for constants). -/
structure Insn where
  op : String
  argval : String := ""
  arg : Nat := 0
  argrepr : String := ""
  deriving DecidableEq, Repr

def isNameOp (op : String) : Bool :=
  op ∈ ["LOAD_GLOBAL", "LOAD_FAST", "LOAD_NAME", "LOAD_DEREF", "STORE_GLOBAL", "STORE_FAST", "STORE_NAME",
        "STORE_DEREF", "LOAD_FAST_CHECK"]

def isAttrOp (op : String) : Bool := op ∈ ["LOAD_ATTR", "LOAD_METHOD", "LOOKUP_METHOD", "STORE_ATTR"]
def isSubscrOp (op : String) : Bool := op ∈ ["BINARY_SUBSCR", "STORE_SUBSCR"]
def isSliceOp (op : String) : Bool := op ∈ ["BINARY_SLICE", "STORE_SLICE"]
def isCallOp (op : String) : Bool := op ∈ ["CALL_FUNCTION", "CALL_METHOD", "CALL"]
/-- `insn.opname.startswith(("STORE_", "UNPACK_"))`, spelled out over the opcodes that can reach the test: every other
opcode either raised ValueError before it or is one of the LOAD_/BINARY_/CALL/DUP_TOP/POP_TOP/PRECALL/CACHE/PUSH_NULL
names above, none of which has such a prefix.  (`String.startsWith` does not reduce in the kernel.) -/
def endsTarget (op : String) : Bool :=
  op ∈ ["STORE_GLOBAL", "STORE_FAST", "STORE_NAME", "STORE_DEREF", "STORE_ATTR", "STORE_SUBSCR", "STORE_SLICE",
        "UNPACK_SEQUENCE", "UNPACK_EX"]

def formatTuple (values : List String) : String :=
  match values with
  | [v] => "(" ++ v ++ ",)"
  | vs => "(" ++ ", ".intercalate vs ++ ")"

inductive Err
  | value        -- ValueError: unsupported opcode / unsupported stack depth
  | index        -- IndexError: pop from empty list / ran off the end of the instructions
  | fuel
  deriving DecidableEq, Repr

/-- `stack.pop()` -/
def pop (st : List String) : Except Err (String × List String) :=
  match st with
  | [] => .error .index
  | x :: xs => .ok (x, xs)

mutual
  /-- `next_target()`: consumes instructions from `is`; the symbolic stack is kept with its top first.
  Returns the target text and the remaining instructions. -/
  def nextTarget : Nat → List Insn → List String → Except Err (String × List Insn)
    | 0, _, _ => .error .fuel
    | _+1, [], _ => .error .index                               -- insns[idx] past the end
    | fuel+1, i :: rest, st =>
      if i.op == "EXTENDED_ARG" then nextTarget fuel rest st
      else
        -- one instruction's effect on the symbolic stack
        let step : Except Err (List String × List Insn) :=
          if isNameOp i.op then .ok (i.argval :: st, rest)
          else if isAttrOp i.op then do
            let (obj, st') ← pop st
            pure ((obj ++ "." ++ i.argval) :: st', rest)
          else if i.op == "LOAD_CONST" then .ok (i.argrepr :: st, rest)
          else if isSubscrOp i.op then do
            let (index, st1) ← pop st
            let (container, st2) ← pop st1
            pure ((container ++ "[" ++ index ++ "]") :: st2, rest)
          else if isSliceOp i.op then do
            let (stepr, st0) ← (if i.arg == 3 then do let (x, s) ← pop st; pure (":" ++ x, s) else pure ("", st))
            let (e, st1) ← pop st0
            let (b, st2) ← pop st1
            let (container, st3) ← pop st2
            pure ((container ++ "[" ++ b ++ ":" ++ e ++ stepr ++ "]") :: st3, rest)
          else if i.op == "UNPACK_SEQUENCE" then do
            let (vals, rest') ← targets fuel i.arg rest
            pure (formatTuple vals :: st, rest')
          else if i.op == "UNPACK_EX" then do
            let (before, r1) ← targets fuel (i.arg % 256) rest
            let (star, r2) ← nextTarget fuel r1 []
            let (after, r3) ← targets fuel (i.arg / 256) r2
            pure (formatTuple (before ++ ["*" ++ star] ++ after) :: st, r3)
          else if isCallOp i.op then do
            -- args = stack[-n:]; del stack[-n:]; func = stack.pop()
            if st.length < i.arg then .error .index   -- (Python's slice would silently take fewer; then pop fails or not)
            else
              let args := (st.take i.arg).reverse
              let (func, st') ← pop (st.drop i.arg)
              pure ((func ++ "(" ++ ", ".intercalate args ++ ")") :: st', rest)
          else if i.op == "DUP_TOP" then
            match st with
            | [] => .error .index
            | x :: xs => .ok (x :: x :: xs, rest)
          else if i.op == "POP_TOP" then do
            let (_, st') ← pop st
            pure (st', rest)
          else if i.op == "PRECALL" || i.op == "CACHE" || i.op == "PUSH_NULL" then .ok (st, rest)
          else if i.op == "LOAD_SUPER_ATTR" then do
            -- 3.12+: one instruction on (super, cls, obj); bit 1 of the oparg says the call had its two arguments spelled out
            let (obj, s1) ← pop st
            let (cls, s2) ← pop s1
            let (func, s3) ← pop s2
            pure ((if (i.arg / 2) % 2 == 1 then func ++ "(" ++ cls ++ ", " ++ obj ++ ")." ++ i.argval
                   else func ++ "()." ++ i.argval) :: s3, rest)
          else .error .value
        match step with
        | .error e => .error e
        | .ok (st', rest') =>
          if endsTarget i.op then
            (match st' with
             | [x] => .ok (x, rest')
             | _ => .error .value)          -- "Assignment occurred at unsupported stack depth"
          else nextTarget fuel rest' st'
  /-- `[next_target() for _ in range(n)]` -/
  def targets : Nat → Nat → List Insn → Except Err (List String × List Insn)
    | 0, _, _ => .error .fuel
    | _+1, 0, is => .ok ([], is)
    | fuel+1, n+1, is => do
      let (v, r) ← nextTarget fuel is []
      let (vs, r') ← targets fuel n r
      pure (v :: vs, r')
end

/-- `describe_assignment_target(insns, start_idx)` on the instruction list from `start_idx` on. -/
def describeTarget (is : List Insn) : Option String :=
  match is with
  | [] => none
  | i :: _ =>
    if i.op == "POP_TOP" then none
    else if i.op == "STORE_FAST" then some i.argval
    else
      match nextTarget (2 * is.length + 2) is [] with
      | .ok (s, _) => some s
      | .error _ => none          -- except (ValueError, IndexError): return None

end SS.Target
