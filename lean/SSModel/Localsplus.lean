/-
Where the value stack of a CPython ≥ 3.11 frame starts: the number of "localsplus" slots in front of it.

CPython lays the fast locals out as: one slot per name of `co_varnames` (a closed-over argument or local is a cell stored in
that same slot), then one slot per name of `co_cellvars` that is not also in `co_varnames`, then one slot per name of
`co_freevars` — also when a free variable's name occurs in `co_varnames` as well (3.12 inlines comprehensions, whose iteration
variable becomes a fast local of the enclosing function while the outer references stay free).

`inspect_frame` (stackscope/_lowlevel_cpython_311.py) computes the count as
    len(set(co.co_varnames + co.co_cellvars)) + len(co.co_freevars)
-/
namespace SS.Localsplus

/-- The distinct elements of a list, in order of first occurrence. -/
def dedup (l : List String) : List String :=
  l.foldl (fun acc x => if x ∈ acc then acc else acc ++ [x]) []

/-- `len(set(xs))` -/
def distinct (xs : List String) : Nat := (dedup xs).length

/-- The expression in `inspect_frame`. -/
def slotsCode (varnames cellvars freevars : List String) : Nat :=
  distinct (varnames ++ cellvars) + freevars.length

/-- CPython's layout. -/
def slotsLayout (varnames cellvars freevars : List String) : Nat :=
  varnames.length + (cellvars.filter (fun c => !decide (c ∈ varnames))).length + freevars.length

/-- Two plausible rewrites that are wrong (seeded changes C01-m8 and C07-m7). -/
def slotsMergedAll (varnames cellvars freevars : List String) : Nat := distinct (varnames ++ cellvars ++ freevars)

def slotsArgsOnly (varnames cellvars freevars : List String) (nargs : Nat) : Nat :=
  varnames.length + cellvars.length - ((varnames.take nargs).filter (fun v => decide (v ∈ cellvars))).length + freevars.length

end SS.Localsplus
