/-
`better_origin(candidate, fallback)` of stackscope/_extract.py: which object is remembered as `Frame.origin`
while items are being unwrapped.

    try: weakref.ref(candidate)
    except TypeError: return fallback
    else:
        typelist = (CoroutineType, GeneratorType, AsyncGeneratorType)
        if isinstance(candidate, typelist) or not isinstance(fallback, typelist): return candidate
        return fallback
-/
namespace SS.Origin

inductive Kind
  | coroutine | generator | asyncGenerator   -- the three kinds whose frame the object owns
  | other (weakrefable : Bool)               -- anything else (a wrapper, an awaitable, a task, ...)
  | none                                     -- no fallback yet
  deriving DecidableEq, Repr

def Kind.genlike : Kind → Bool
  | .coroutine | .generator | .asyncGenerator => true
  | _ => false

def Kind.weakrefable : Kind → Bool
  | .coroutine | .generator | .asyncGenerator => true
  | .other w => w
  | .none => false

inductive Pick | candidate | fallback deriving DecidableEq, Repr

def betterOrigin (cand fb : Kind) : Pick :=
  if !cand.weakrefable then .fallback
  else if cand.genlike || !fb.genlike then .candidate
  else .fallback

/-- Two slips seen in seeded changes: a generator-like kind missing from the list; `or` turned into `and`. -/
def betterOriginNoAgen (cand fb : Kind) : Pick :=
  let gl := fun (k : Kind) => k == .coroutine || k == .generator
  if !cand.weakrefable then .fallback
  else if gl cand || !gl fb then .candidate
  else .fallback

def betterOriginAnd (cand fb : Kind) : Pick :=
  if !cand.weakrefable then .fallback
  else if cand.genlike && !fb.genlike then .candidate
  else .fallback

end SS.Origin
