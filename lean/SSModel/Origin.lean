/-
`better_origin(candidate, fallback)` of stackscope/_extract.py: which object is remembered as `Frame.origin`
while items are being unwrapped.

    try: weakref.ref(candidate)
    except TypeError: return fallback
    else:
        typelist = (CoroutineType, GeneratorType, AsyncGeneratorType)
        if isinstance(candidate, typelist) or not isinstance(fallback, typelist): return candidate
        return fallback
-/
namespace SS.Origin

inductive Kind
  | coroutine | generator | asyncGenerator   -- the three kinds whose frame the object owns
  | other (weakrefable : Bool)               -- anything else (a wrapper, an awaitable, a task, ...)
  | none                                     -- no fallback yet
  deriving DecidableEq, Repr

def Kind.genlike : Kind → Bool
  | .coroutine | .generator | .asyncGenerator => true
  | _ => false

def Kind.weakrefable : Kind → Bool
  | .coroutine | .generator | .asyncGenerator => true
  | .other w => w
  | .none => false

inductive Pick | candidate | fallback deriving DecidableEq, Repr

def betterOrigin (cand fb : Kind) : Pick :=
  if !cand.weakrefable then .fallback
  else if cand.genlike || !fb.genlike then .candidate
  else .fallback

/-- Two slips seen in seeded changes: a generator-like kind missing from the list; `or` turned into `and`. -/
def betterOriginNoAgen (cand fb : Kind) : Pick :=
  let gl := fun (k : Kind) => k == .coroutine || k == .generator
  if !cand.weakrefable then .fallback
  else if gl cand || !gl fb then .candidate
  else .fallback

def betterOriginAnd (cand fb : Kind) : Pick :=
  if !cand.weakrefable then .fallback
  else if cand.genlike && !fb.genlike then .candidate
  else .fallback

/-! The origin reset of `extract_iter`: when the item popped from the queue is a Python frame, the origin that came with it is
kept only if that frame is the origin's OWN frame (`origin.cr_frame / gi_frame / ag_frame is current`); the frames a running
coroutine or generator is calling get no origin. -/

structure PyFrame where
  id : Nat        -- identity of the frame object
  code : Nat      -- identity of its code object
  deriving DecidableEq, Repr

/-- `ownFrame`: the frame the origin object owns (`none`: not generator-like, or finished). -/
def keepOrigin (ownFrame : Option PyFrame) (cur : PyFrame) : Bool :=
  match ownFrame with
  | some f => f.id == cur.id
  | none => false

/-- The slip seen in a seeded change: compare code objects instead of frames. -/
def keepOriginByCode (ownFrame : Option PyFrame) (cur : PyFrame) : Bool :=
  match ownFrame with
  | some f => f.code == cur.code
  | none => false

end SS.Origin
