import SSModel.Gen.Consts
/-
M-H (part 3): stackscope/_code_dispatch.py (`IdentityDict`, `get_code`, `code_dispatch`) and
`customize` of _customization.py.
-/
namespace SS.Dispatch

/-! ### get_code -/

abbrev CodeId := Nat
abbrev Name := Nat

/-- What `get_code` can be handed. -/
inductive Thing
  | fpartial (inner : Thing)       -- functools.partial(inner, ...)
  | method (inner : Thing)         -- bound method: types.MethodType(inner, obj)
  | classmethod (inner : Thing)
  | staticmethod (inner : Thing)
  | wraps (inner : Thing)          -- a wrapper with __wrapped__ = inner (functools.wraps / update_wrapper)
  | func (c : CodeId)              -- a plain function with __code__ = c
  | code (c : CodeId)              -- a code object
  | other                          -- anything else (an int, a builtin, a callable instance …)
  deriving DecidableEq, Repr

inductive GetCodeErr
  | typeError     -- "Don't know how to extract a code object from ..."
  | valueError (depth : Nat)   -- "Couldn't find a function or class named ..." at position `depth` of the names
  deriving DecidableEq, Repr

/-- The `while True:` stripping loop followed by the FunctionType / CodeType test. -/
def baseCode : Thing → Except GetCodeErr CodeId
  | .fpartial t => baseCode t         -- thing = thing.func
  | .method t => baseCode t           -- thing = thing.__func__
  | .classmethod t => baseCode t
  | .staticmethod t => baseCode t
  | .wraps t => baseCode t            -- inspect.unwrap follows __wrapped__
  | .func c => .ok c
  | .code c => .ok c
  | .other => .error .typeError

/-- `for const in code.co_consts: if isinstance(const, CodeType) and const.co_name == name: ...; break` —
the first nested code object with that name. -/
def findChild (children : CodeId → List (Name × CodeId)) (c : CodeId) (n : Name) : Option CodeId :=
  ((children c).find? (fun p => p.1 == n)).map (·.2)

def walkNames (children : CodeId → List (Name × CodeId)) : CodeId → List Name → Nat → Except GetCodeErr CodeId
  | c, [], _ => .ok c
  | c, n :: ns, idx =>
    match findChild children c n with
    | some d => walkNames children d ns (idx + 1)
    | none => .error (.valueError idx)

def getCode (children : CodeId → List (Name × CodeId)) (t : Thing) (names : List Name) : Except GetCodeErr CodeId :=
  match baseCode t with
  | .ok c => walkNames children c names 0
  | .error e => .error e

/-! ### IdentityDict: a dict keyed by `id(key)`, holding `(key, value)`

A key is an object: an identity and a content (what `==` / `hash` would look at).  The content is
stored but never consulted. -/

structure Key where
  ident : Nat
  content : Nat
  deriving DecidableEq, Repr

/-- `self._data`: insertion-ordered `id -> (key, value)`. -/
abbrev IDict (V : Type) := List (Nat × Key × V)

namespace IDict
variable {V : Type}

def get? (d : IDict V) (k : Key) : Option V := (d.find? (fun e => e.1 == k.ident)).map (·.2.2)

/-- `d[key] = value`: an existing identity keeps its position, the stored pair is replaced. -/
def set : IDict V → Key → V → IDict V
  | [], k, v => [(k.ident, k, v)]
  | e :: rest, k, v => if e.1 == k.ident then (k.ident, k, v) :: rest else e :: set rest k v

def erase (d : IDict V) (k : Key) : IDict V := d.filter (fun e => e.1 != k.ident)

def contains (d : IDict V) (k : Key) : Bool := d.any (fun e => e.1 == k.ident)

/-- `setdefault(key, default)`: returns the stored value, inserting the default if the identity is new. -/
def setdefault (d : IDict V) (k : Key) (v : V) : IDict V × V :=
  match d.get? k with
  | some w => (d, w)
  | none => (d.set k v, v)

/-- `pop(key)`; `none` result = KeyError (or the default, which the caller supplies). -/
def pop (d : IDict V) (k : Key) : IDict V × Option V := (d.erase k, d.get? k)

/-- `popitem()`: LIFO; `none` = KeyError. -/
def popitem (d : IDict V) : IDict V × Option (Key × V) :=
  match d.reverse with
  | [] => (d, none)
  | e :: _ => (d.dropLast, some e.2)

def keys (d : IDict V) : List Key := d.map (·.2.1)
def len (d : IDict V) : Nat := d.length

end IDict

/-! ### code_dispatch -/

abbrev Impl := Nat

/-- `registry[get_code(code, *names)] = func` for a sequence of registrations; code objects are keys
by identity (their content = what `==` on code objects compares). -/
def register (reg : IDict Impl) (code : Key) (f : Impl) : IDict Impl := reg.set code f

def dispatch (reg : IDict Impl) (default : Impl) (code : Key) : Impl := (reg.get? code).getD default

/-! ### customize -/

/-- What the user's `elaborate=` callback does, if given. -/
inductive UserElab
  | absent
  | returnsNone
  | returns (r : Nat)
  deriving DecidableEq, Repr

inductive HookResult
  | none          -- keep the rest of the stack
  | prune         -- PRUNE
  | replacement (r : Nat)
  deriving DecidableEq, Repr

structure Opts where
  hide : Bool
  hideLine : Bool
  prune : Bool
  elab_ : UserElab
  deriving DecidableEq, Repr

structure FrameFlags where
  hide : Bool
  hideLine : Bool
  deriving DecidableEq, Repr

/-- `customize_it(frame, next_inner)` registered by `customize(target, **opts)`.  Which flags it sets is
read off the source on every run (`SS.Gen.setsHide`, `SS.Gen.setsHideLine`). -/
def customizeIt (o : Opts) (f : FrameFlags) : FrameFlags × HookResult :=
  let f1 : FrameFlags := { f with hide := if o.hide && SS.Gen.setsHide then true else f.hide }
  let f2 : FrameFlags := { f1 with hideLine := if o.hideLine && SS.Gen.setsHideLine then true else f1.hideLine }
  match o.elab_ with
  | .returns r => (f2, .replacement r)
  | _ => (f2, if o.prune then .prune else .none)

/-- The decorator form `customize(**opts)` returns `functools.partial(customize, <forwarded options>)`;
applying it to the target is the direct form with the forwarded options, the others at their defaults.
Which options are forwarded is read off the source on every run (`SS.Gen.fwd*`). -/
def decoratorOpts (o : Opts) : Opts :=
  { hide := if SS.Gen.fwdHide then o.hide else false
    hideLine := if SS.Gen.fwdHideLine then o.hideLine else false
    prune := if SS.Gen.fwdPrune then o.prune else false
    elab_ := if SS.Gen.fwdElaborate then o.elab_ else .absent }

end SS.Dispatch
