/-!
`bisect.bisect_left` as the standard library implements it (binary search), over an index predicate
`p i` = "`a[i] < x`".  The loop has no fuel in Python; `hi - lo` halves every round, so `len + 1` rounds are enough.
-/
namespace SS.Bisect

/-- `while lo < hi: mid = (lo + hi) // 2; if a[mid] < x: lo = mid + 1 else: hi = mid` -/
def bs (p : Nat → Bool) : Nat → Nat → Nat → Nat
  | 0, lo, _ => lo
  | f + 1, lo, hi =>
    if lo < hi then
      let mid := (lo + hi) / 2
      if p mid then bs p f (mid + 1) hi else bs p f lo mid
    else lo

end SS.Bisect
