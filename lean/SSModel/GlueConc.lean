import SSModel.Glue
/-!
# The installation routine under concurrency (C17, several threads)

`add_glue_as_needed` as atomic steps of any number of threads, interleaved with imports and removals happening
on any thread.  Granularity: the fast-path test, taking the lock, the snapshot, *the two pops for one name*
(one step: only the lock holder scans, so nothing can come between them), the glue call, the cache update.
A name whose module has vanished since the snapshot is skipped and the cache is then left alone (the repaired
F16).  The lock is modelled; the exactly-once theorem does not need it — it follows from the pops being atomic.
-/
namespace SS.GlueConc
open SS.Glue

inductive PC
  | idle                                       -- not in add_glue_as_needed
  | fast                                       -- about to do the len == cache test
  | wantLock
  | scan (todo : List Mod) (total : Nat) (complete : Bool)      -- holds the lock; `todo` = names still to visit
  | popped (m : Mod) (b : Bool) (mf : Bool) (todo : List Mod) (total : Nat) (complete : Bool)   -- pops done, glue call pending
  deriving DecidableEq, Repr

structure CState where
  g : GState
  lock : Option Nat            -- thread holding glue_lock
  pcs : List PC                -- one per thread
  deriving Repr

/-- What the pending glue call of a thread in `.popped` will log. -/
def callLog (st : Static) (m : Mod) (b mf : Bool) : List Ev :=
  if mf then [.ranMod m] ++ (if st.modRaises m then [.warn m] else [])
  else if b then [.ranBuiltin m] ++ (if st.builtinRaises m then [.warn m] else [])
  else []

/-- One atomic step of thread `t` (no-op if `t` does not exist or cannot move). -/
def cstep (st : Static) (c : CState) (t : Nat) : CState :=
  match c.pcs[t]? with
  | none => c
  | some .idle => { c with pcs := c.pcs.set t .fast }
  | some .fast =>
    if c.g.present.length == c.g.cache then
      { c with g := { c.g with log := c.g.log ++ [.returned] }, pcs := c.pcs.set t .idle }
    else { c with pcs := c.pcs.set t .wantLock }
  | some .wantLock =>
    match c.lock with
    | some _ => c                                   -- blocked
    | none => { c with lock := some t, pcs := c.pcs.set t (.scan c.g.present c.g.present.length true) }
  | some (.scan [] total complete) =>
    { c with g := { c.g with cache := if complete then total else 0, log := c.g.log ++ [.returned] },
             lock := none, pcs := c.pcs.set t .idle }
  | some (.scan (m :: todo) total complete) =>
    if c.g.present.contains m then
      let b := st.hasBuiltin m && !c.g.builtinPopped.contains m
      let mf := st.hasModGlue m && !c.g.modPopped.contains m
      { c with g := { c.g with builtinPopped := if b then m :: c.g.builtinPopped else c.g.builtinPopped,
                                modPopped := if mf then m :: c.g.modPopped else c.g.modPopped },
               pcs := c.pcs.set t (.popped m b mf todo total complete) }
    else { c with pcs := c.pcs.set t (.scan todo total false) }        -- vanished: skipped, rescan later
  | some (.popped m b mf todo total complete) =>
    { c with g := { c.g with log := c.g.log ++ callLog st m b mf }, pcs := c.pcs.set t (.scan todo total complete) }

/-- Environment moves (imports / removals on any thread) interleaved with thread steps. -/
inductive CMove
  | thread (t : Nat)
  | insert (m : Mod)
  | remove (m : Mod)
  deriving DecidableEq, Repr

def cmove (st : Static) (c : CState) : CMove → CState
  | .thread t => cstep st c t
  | .insert m => { c with g := step st c.g (.insert m) }
  | .remove m => { c with g := step st c.g (.remove m) }

def cinit (n : Nat) : CState := ⟨GState.init, none, List.replicate n .idle⟩

def crun (st : Static) (n : Nat) (sched : List CMove) : CState := sched.foldl (cmove st) (cinit n)

/-- The module a thread is about to call glue for, if any. -/
def pendOf : PC → Option Mod
  | .popped m b mf _ _ _ => if mf || b then some m else none
  | _ => none

def pend (pcs : List PC) : List Mod := pcs.filterMap pendOf

/-- …and whether that pending call is the built-in one. -/
def pendBuiltinOf : PC → Option Mod
  | .popped m b mf _ _ _ => if !mf && b then some m else none
  | _ => none

end SS.GlueConc
