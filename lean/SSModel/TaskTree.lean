/-
M-F (Trio part): task trees and what the trio glue of stackscope/_glue.py makes of them.

    @unwrap_stackitem.register(Task)      def unwrap_task(task): return task.coro
    @elaborate_context.register(NurseryManager)
    def elaborate_nursery(manager, context):
        context.obj = manager._nursery
        context.children = [extract_child(t, for_task=True) for t in context.obj.child_tasks]

The frame layer is abstracted: C01's conclusion — the frames of a task carry, outermost first, exactly one
context per nursery the task currently has open — enters as the *definition* of `extractTask`'s context
list; what is modelled here is the recursion through nurseries and child tasks, and the stub rule.
-/
namespace SS.TaskTree

mutual
  inductive Task
    | mk (id : Nat) (nurseries : Nurseries)        -- the nurseries it has open, outermost first
  inductive Nurseries
    | nil
    | cons (n : Nursery) (rest : Nurseries)
  inductive Nursery
    | mk (id : Nat) (tasks : Tasks)                -- nursery.child_tasks
  inductive Tasks
    | nil
    | cons (t : Task) (rest : Tasks)
end

mutual
  /-- an extracted Stack, reduced to what C14 speaks about -/
  inductive XStack
    | mk (root : Nat) (stub : Bool) (contexts : XContexts)
  inductive XContexts
    | nil
    | cons (c : XContext) (rest : XContexts)
  inductive XContext
    | mk (obj : Nat) (children : XStacks)          -- obj = the trio.Nursery
  inductive XStacks
    | nil
    | cons (s : XStack) (rest : XStacks)
end

mutual
  /-- `extract(task, recurse_child_tasks=recurse)` -/
  def extractTask (recurse : Bool) : Task → XStack
    | .mk id ns => .mk id false (extractNurseries recurse ns)
  def extractNurseries (recurse : Bool) : Nurseries → XContexts
    | .nil => .nil
    | .cons n rest => .cons (extractNursery recurse n) (extractNurseries recurse rest)
  def extractNursery (recurse : Bool) : Nursery → XContext
    | .mk id ts => .mk id (extractChildren recurse ts)
  /-- `extract_child(child_task, for_task=True)`: a stub unless recursion was requested -/
  def extractChildren (recurse : Bool) : Tasks → XStacks
    | .nil => .nil
    | .cons t rest =>
      .cons (if recurse then extractTask recurse t else (match t with | .mk id _ => .mk id true .nil))
            (extractChildren recurse rest)
end

mutual
  /-- reading the task tree back off an extracted tree -/
  def readTask : XStack → Task
    | .mk root _ cs => .mk root (readNurseries cs)
  def readNurseries : XContexts → Nurseries
    | .nil => .nil
    | .cons c rest => .cons (readNursery c) (readNurseries rest)
  def readNursery : XContext → Nursery
    | .mk obj ch => .mk obj (readTasks ch)
  def readTasks : XStacks → Tasks
    | .nil => .nil
    | .cons s rest => .cons (readTask s) (readTasks rest)
end

def Tasks.ids : Tasks → List Nat
  | .nil => []
  | .cons (.mk id _) rest => id :: rest.ids

def XStacks.roots : XStacks → List Nat
  | .nil => []
  | .cons (.mk r _ _) rest => r :: rest.roots

def XStacks.allStubs : XStacks → Bool
  | .nil => true
  | .cons (.mk _ stub cs) rest => stub && (match cs with | .nil => true | _ => false) && rest.allStubs

end SS.TaskTree
