import SSModel.Bisect
/-!
# M-A: the exception table of a code object (C01, C02)

* `parseVarint`, `parseTable`: transcription of `_lowlevel._parse_exception_table` (the 3.11+ table format:
  big-endian base-64 varints, bit 6 = continuation, bit 7 = start-of-entry marker which the decoder ignores;
  `start`, `size`, `target` in code units, `depth << 1 | lasti`).  Python's `b & 63`, `b & 64`, `val << 6 | x`
  are written `b % 64`, `(b / 64) % 2 = 1`, `val * 64 + x` (the low six bits of `val << 6` are zero).
* `encVarint`, `encodeTable`: CPython's assembler (`assemble_emit_exception_table_item`), generalised to any size.
* `walk`: the loop at the end of `inspect_frame` that simulates raising from the position of the previous
  handler.  `bisect.bisect_left(handlers, (current + 1, 0))` is modelled by its contract on a list sorted by
  `start`: modelled as the standard library's binary search (`SS.Bisect.bs`), proved equal to the partition point on
  sorted disjoint tables; sortedness of every real table met is checked by the harness.
* `lookup`, `chain`: what the interpreter does (`get_exception_handler`: linear scan, first entry covering the
  offset, stop at the first entry that starts after it), iterated from each handler's target.
* `firstCover`: the `handler_depth` loop at the top of `inspect_frame` (where the value stack of a *running*
  frame is trimmed).
-/
namespace SS.ExcTable

/-! ## varints -/

def pgo (val : Nat) : List Nat → Option (Nat × List Nat)
  | [] => none                                     -- StopIteration
  | b :: rest =>
    let v := val * 64 + b % 64
    if (b / 64) % 2 = 1 then pgo v rest else some (v, rest)

/-- `_parse_varint(it)`. -/
def parseVarint (l : List Nat) : Option (Nat × List Nat) := pgo 0 l

/-- The continuation bytes of `n`, most significant first, put in front of `tail`. -/
def encGo (n : Nat) (tail : List Nat) : List Nat :=
  if h : n < 64 then (n + 64) :: tail else encGo (n / 64) ((n % 64 + 64) :: tail)
termination_by n
decreasing_by omega

def encVarint (n : Nat) : List Nat := if n < 64 then [n] else encGo (n / 64) [n % 64]

/-- The first varint of an entry carries bit 7. -/
def setMsb : List Nat → List Nat
  | [] => []
  | b :: r => (b + 128) :: r

/-! ## entries -/

/-- An entry as the assembler stores it (code units). -/
structure Entry where
  start : Nat
  size : Nat
  target : Nat
  depth : Nat
  lasti : Bool
  deriving DecidableEq, Repr

/-- What `_parse_exception_table` yields: byte offsets, inclusive end. -/
structure View where
  start : Nat
  end_ : Int
  target : Nat
  depth : Nat
  lasti : Bool
  deriving DecidableEq, Repr

def Entry.view (e : Entry) : View :=
  { start := 2 * e.start, end_ := (2 * e.start + 2 * e.size : Nat) - 2, target := 2 * e.target, depth := e.depth, lasti := e.lasti }

def encEntry (e : Entry) : List Nat :=
  setMsb (encVarint e.start) ++ encVarint e.size ++ encVarint e.target ++ encVarint (e.depth * 2 + (if e.lasti then 1 else 0))

def encodeTable (es : List Entry) : List Nat := es.flatMap encEntry

def parseEntry (l : List Nat) : Option (View × List Nat) :=
  match parseVarint l with
  | none => none
  | some (s, l1) =>
  match parseVarint l1 with
  | none => none
  | some (len, l2) =>
  match parseVarint l2 with
  | none => none
  | some (t, l3) =>
  match parseVarint l3 with
  | none => none
  | some (dl, l4) =>
    some ({ start := 2 * s, end_ := (2 * s + 2 * len : Nat) - 2, target := 2 * t, depth := dl / 2, lasti := dl % 2 = 1 }, l4)

/-- The generator, run to exhaustion; a truncated last entry is dropped silently (StopIteration). -/
def parseTableF : Nat → List Nat → List View
  | 0, _ => []
  | f + 1, l =>
    match parseEntry l with
    | none => []
    | some (v, rest) => v :: parseTableF f rest

def parseTable (l : List Nat) : List View := parseTableF l.length l

/-! ## the walk -/

structure Block where
  handler : Nat
  level : Nat
  deriving DecidableEq, Repr

/-- `handlers[i] < (c + 1, 0)` as tuples. -/
def ltKey (v : View) (c : Nat) : Bool := v.start < c + 1 || (v.start == c + 1 && v.end_ < 0)

/-- `handlers[i] < (c + 1, 0)` by index (false past the end: the search never looks there). -/
def ltAt (hs : List View) (c : Nat) (i : Nat) : Bool :=
  match hs[i]? with
  | some v => ltKey v c
  | none => false

/-- `bisect.bisect_left(handlers, (c + 1, 0))`: the standard library's binary search. -/
def bisectLeftBS (hs : List View) (c : Nat) : Nat := SS.Bisect.bs (ltAt hs c) (hs.length + 1) 0 hs.length

/-- Its specification on a sorted list: the partition point (proved equal on disjoint tables, `bisectLeftBS_eq`). -/
def bisectLeft (hs : List View) (c : Nat) : Nat := (hs.takeWhile (ltKey · c)).length

def covers (v : View) (pos : Nat) : Bool := v.start ≤ pos && (pos : Int) ≤ v.end_

/-- The `while True` loop; `none` = still running when the fuel ran out.  Blocks are accumulated by
prepending, which is the `blocks.reverse()` at the end. -/
def walkGo (hs : List View) : Nat → Nat → List Block → Option (List Block)
  | 0, _, _ => none
  | f + 1, cur, acc =>
    let idx := bisectLeftBS hs cur
    if idx = 0 then some acc else
    match hs[idx - 1]? with
    | none => some acc
    | some h => if covers h cur then walkGo hs f h.target (⟨h.target, h.depth⟩ :: acc) else some acc

def walk (hs : List View) (lasti : Nat) : Option (List Block) := walkGo hs (hs.length + 1) lasti []

/-- `get_exception_handler`: linear scan in table order. -/
def lookup : List View → Nat → Option View
  | [], _ => none
  | v :: vs, pos => if v.start > pos then none else if (pos : Int) ≤ v.end_ then some v else lookup vs pos

/-- The handlers an exception raised at `pos` is handed to in turn (each handler's own code is protected
by the next one), accumulated like `walkGo`. -/
def chainGo (hs : List View) : Nat → Nat → List Block → Option (List Block)
  | 0, _, _ => none
  | f + 1, cur, acc =>
    match lookup hs cur with
    | none => some acc
    | some h => chainGo hs f h.target (⟨h.target, h.depth⟩ :: acc)

/-- Sorted by start, ranges non-empty and pairwise disjoint: what the assembler emits. -/
def Disjoint : List View → Prop
  | [] => True
  | [v] => (v.start : Int) ≤ v.end_
  | v :: w :: rest => (v.start : Int) ≤ v.end_ ∧ v.end_ < w.start ∧ Disjoint (w :: rest)

def disjointB : List View → Bool
  | [] => true
  | [v] => (v.start : Int) ≤ v.end_
  | v :: w :: rest => (v.start : Int) ≤ v.end_ && v.end_ < w.start && disjointB (w :: rest)

/-- Every handler lies after the range it protects. -/
def Forward (hs : List View) : Prop := ∀ v ∈ hs, v.end_ < (v.target : Int)

def forwardB (hs : List View) : Bool := hs.all (fun v => v.end_ < (v.target : Int))

/-! ## the trim depth of a running frame -/

/-- `for start, end, _, depth, _ in table: if start <= lasti <= end: handler_depth = depth; break  else: 0`. -/
def firstCover : List View → Nat → Nat
  | [], _ => 0
  | v :: vs, pos => if covers v pos then v.depth else firstCover vs pos

/-! ## the join with analyze_with_blocks -/

/-- One context per block whose handler is a with-cleanup handler, outermost first; the manager is the
`__self__` of the bound `__exit__` stored at stack index `level - 1`; then the exiting one, if any. -/
def mapAll {α β : Type} (f : α → Option β) : List α → Option (List β)
  | [] => some []
  | a :: as =>
    match f a with
    | none => none
    | some b =>
      match mapAll f as with
      | none => none
      | some bs => some (b :: bs)

/-- `replace(with_block_info[block.handler], obj=stack[block.level - 1].__self__)` -/
def ctxOf {α β : Type} (stack : List α) (selfOf : α → Option β) (b : Block) : Option (Nat × Option β) :=
  match (if b.level = 0 then stack.getLast? else stack[b.level - 1]?) with     -- Python's stack[level - 1]
  | none => none                                   -- IndexError
  | some o =>
    match selfOf o with
    | none => none                                 -- AttributeError: no __self__
    | some m => some (b.handler, some m)

def join {α β : Type} (blocks : List Block) (isWith : Nat → Bool) (stack : List α) (selfOf : α → Option β) (exiting : Option Nat) :
    Option (List (Nat × Option β)) :=
  match mapAll (ctxOf stack selfOf) (blocks.filter (fun b => isWith b.handler)) with
  | none => none            -- the analysis fails (the caller falls back, with a warning)
  | some cs => some (cs ++ (match exiting with | some off => [(off, none)] | none => []))

end SS.ExcTable
