import SSModel.Gen.Consts
/-
M-I: the presentation layer of stackscope/_types.py:
`Stack._format`, `Frame._format`, `Context._format`, `_format_error`, `_frame_summaries`, `format_flat`.

Names, source lines and reprs are opaque single-line strings supplied from outside (`String` payloads);
the marker strings are the *generated* constants `SS.Gen.*A` / `SS.Gen.*U`, re-read from the source on
every run.
-/
namespace SS.Format

structure Opts where
  ascii : Bool
  showContexts : Bool
  showHidden : Bool
  deriving DecidableEq, Repr

/-- The prefix markers, as positions in the grammar (rendered through the generated table). -/
inductive Marker
  | startFrame | continueFrame | startLeaf
  | startContext | continueContext | startChildContext | startCode
  | startChild | continueChild
  deriving DecidableEq, Repr

def Marker.render (ascii : Bool) : Marker → String
  | .startFrame => if ascii then SS.Gen.startFrameA else SS.Gen.startFrameU
  | .continueFrame => if ascii then SS.Gen.continueFrameA else SS.Gen.continueFrameU
  | .startLeaf => if ascii then SS.Gen.startLeafA else SS.Gen.startLeafU
  | .startContext => if ascii then SS.Gen.startContextA else SS.Gen.startContextU
  | .continueContext => if ascii then SS.Gen.continueContextA else SS.Gen.continueContextU
  | .startChildContext => if ascii then SS.Gen.startChildContextA else SS.Gen.startChildContextU
  | .startCode => if ascii then SS.Gen.startCodeA else SS.Gen.startCodeU
  | .startChild => if ascii then SS.Gen.startChildA else SS.Gen.startChildU
  | .continueChild => if ascii then SS.Gen.continueChildA else SS.Gen.continueChildU

/-- `child_context_indicator` of Frame._format (what `line.startswith(...)` is tested against). -/
def childIndicator (ascii : Bool) : String := if ascii then SS.Gen.childContextIndicatorA else SS.Gen.childContextIndicatorU

/-- One output line: the markers prepended on the way out (outermost first) and the payload text,
which already ends in its newline. -/
structure Line where
  markers : List Marker
  text : String
  deriving DecidableEq, Repr

def Line.render (ascii : Bool) (l : Line) : String := String.join (l.markers.map (Marker.render ascii)) ++ l.text

mutual
  inductive Stack
    | mk (root : Option String) (frames : Frames) (leaf : Option String) (error : Option (List String))
  inductive Frames
    | nil
    | cons (f : Frame) (rest : Frames)
  /-- `head` = "func in module at file:line"; `codeLine` = linetext ("" if none / hide_line). -/
  inductive Frame
    | mk (head : String) (file : String) (func : String) (lineno : Nat) (codeLine : String) (hide : Bool) (contexts : Contexts)
  inductive Contexts
    | nil
    | cons (c : Context) (rest : Contexts)
  /-- `srcLine` = linecache text of the with-line (only looked at when start_line is set and the context
  has a parent frame); `objType` = `type(obj).__name__` if obj is not None; `reprSelf` = repr(context)
  (used by the summaries of child contexts); `reprObj` = repr(context.obj) (the fictitious local). -/
  inductive Context
    | mk (srcLine : String) (description : Option String) (isAsync : Bool) (objType : Option String)
         (varname : Option String) (startLine : Option Nat) (hide : Bool) (exiting : Bool) (reprSelf : String)
         (reprObj : String) (inner : Option Stack) (children : Children)
  inductive Children
    | nil
    | ctx (c : Context) (rest : Children)
    | stack (s : Stack) (rest : Children)
end

def Contexts.lastExiting : Contexts → Bool
  | .nil => false
  | .cons (.mk _ _ _ _ _ _ _ ex _ _ _ _) .nil => ex
  | .cons _ rest => rest.lastExiting

def Frames.toList : Frames → List Frame
  | .nil => []
  | .cons f rest => f :: rest.toList

def Frames.isEmpty : Frames → Bool
  | .nil => true
  | _ => false

/-- `Context._name_and_type()`. -/
def nameAndType (objType varname : Option String) : String :=
  match objType with
  | some t => (match varname with | some v => if v.isEmpty then "_" else v | none => "_") ++ ": " ++ t
  | none => match varname with | some v => v | none => ""

/-- The first line of `Context._format`. -/
def contextText (srcLine : String) (description : Option String) (isAsync : Bool) (objType varname : Option String)
    (startLine : Option Nat) (hasParent showLineno : Bool) : String :=
  let lt0 := if startLine.isSome && hasParent then srcLine else ""
  let lt := if lt0.isEmpty then
      (match description with
       | some d => if d.isEmpty then (if isAsync then "async with <???>:" else "with <???>:") else d
       | none => if isAsync then "async with <???>:" else "with <???>:")
    else lt0
  let info := nameAndType objType varname
  let parts := (if info.isEmpty then [] else [info]) ++
               (match startLine with | some n => if showLineno then ["(line " ++ toString n ++ ")"] else [] | none => [])
  (if parts.isEmpty then lt else lt ++ "  # " ++ " ".intercalate parts) ++ "\n"

def headerText (root : Option String) : String :=
  match root with
  | some r => "stackscope.Stack of " ++ r ++ " (most recent call last):" ++ "\n"
  | none => "stackscope.Stack (most recent call last):" ++ "\n"

def errorLines (err : Option (List String)) : List Line :=
  match err with
  | none => []
  | some ls => ⟨[], "  Error while extracting stack:\n"⟩ :: ls.map (fun l => ⟨[], "  " ++ l ++ "\n"⟩)

def push (m : Marker) (l : Line) : Line := { l with markers := m :: l.markers }

/-- `marker = first if idx == 0 else cont` over a block of lines. -/
def markBlock (first cont : Marker) : List Line → List Line
  | [] => []
  | l :: ls => push first l :: ls.map (push cont)

/-- Frame._format's choice for the lines of one context: first line `start_context`; a later line that
starts with the child indicator gets `start_child_context`, any other `continue_context`.  A line
"starts with the child indicator" iff its outermost marker so far is `startChild` (its rendering *is*
the indicator: checked on the generated table by `C18_indicator_is_start_child`). -/
def markContext : List Line → List Line
  | [] => []
  | l :: ls => push .startContext l :: ls.map (fun x =>
      match x.markers with
      | .startChild :: _ => push .startChildContext x
      | _ => push .continueContext x)

/-- `not line.strip()` on the rendered line: among the markers that can lead a child's line only
`continue_child` renders as white space (in both marker tables), so the line is blank iff its text is
and it carries nothing but `continue_child` markers. -/
def isBlank (l : Line) : Bool := l.text.trimAscii.isEmpty && l.markers.all (· == .continueChild)

mutual
  def fmtStack (sc sh : Bool) : Stack → List Line
    | .mk root frames leaf err =>
      ⟨[], headerText root⟩ :: (fmtFrames sc sh frames ++
        (match leaf with | some r => [⟨[.startLeaf], r ++ "\n"⟩] | none => []) ++ errorLines err)
  def fmtFrames (sc sh : Bool) : Frames → List Line
    | .nil => []
    | .cons f rest => fmtFrameIn sc sh f ++ fmtFrames sc sh rest
  /-- the frame's lines with the stack-level markers, or nothing if hidden -/
  def fmtFrameIn (sc sh : Bool) : Frame → List Line
    | .mk head file func lineno code hide ctxs =>
      if hide && !sh then [] else
        markBlock .startFrame .continueFrame
          (⟨[], head ++ "\n"⟩ ::
            ((if sc then fmtContexts sc sh ctxs else []) ++
             (if ctxs.lastExiting || code.isEmpty then [] else [⟨[.startCode], code ++ "\n"⟩])))
  def fmtContexts (sc sh : Bool) : Contexts → List Line
    | .nil => []
    | .cons c rest => markContext (fmtContext sc sh true true c) ++ fmtContexts sc sh rest
  /-- `Context._format(opts, parent, show_lineno=…)` -/
  def fmtContext (sc sh : Bool) (hasParent showLineno : Bool) : Context → List Line
    | .mk src desc isAsync objType varname startLine hide _ex _repr _robj inner children =>
      if hide && !sh then [] else
        ⟨[], contextText src desc isAsync objType varname startLine hasParent showLineno⟩ ::
          ((match inner with | some s => (fmtStack sc sh s).drop 1 | none => []) ++ fmtChildren sc sh false children)
  /-- the `for child in self.children` loop; the Bool is `did_blank` -/
  def fmtChildren (sc sh : Bool) (didBlank : Bool) : Children → List Line
    | .nil => []
    | .ctx c rest =>
      let sub := fmtContext sc sh false false c
      let db := match sub.getLast? with | some l => isBlank l | none => false
      markBlock .startChild .continueChild sub ++ fmtChildren sc sh db rest
    | .stack (.mk root frames leaf err) rest =>
      let body := (fmtStack sc sh (.mk root frames leaf err)).drop 1
      let first : Line := ⟨[], (match root with | some r => r | none => "<unidentified child>") ++ "\n"⟩
      let hasFrames := !frames.isEmpty
      let pre : List Line := if hasFrames && !didBlank then [⟨[.continueChild], "\n"⟩] else []
      let sub := (first :: body) ++ (if hasFrames then [⟨[], "\n"⟩] else [])
      let db := match sub.getLast? with | some l => isBlank l | none => false
      pre ++ markBlock .startChild .continueChild sub ++ fmtChildren sc sh db rest
end

/-- `Formattable.format(...)`: the rendered strings. -/
def format (o : Opts) (s : Stack) : List String := (fmtStack o.showContexts o.showHidden s).map (Line.render o.ascii)

/-- `str(stack)` -/
def str (s : Stack) : String := String.join (format ⟨false, true, false⟩ s)

/-! ### Standard-library summaries (C19) -/

/-- A `traceback.FrameSummary` as far as stackscope determines it: `line = none` means "look the line
up from the file" (the constructor was given `line=None`). -/
structure Summary where
  filename : String
  lineno : Nat
  name : String
  line : Option String
  ctxLocal : Option String       -- the fictitious "<context manager>" local (capture_locals on a context entry)
  isFrameEntry : Bool            -- built by Frame.as_stdlib_summary (locals of the frame captured iff requested)
  deriving DecidableEq, Repr

/-- The entry introducing a context: `traceback.FrameSummary(parent.filename, start_line or parent.lineno,
parent.funcname + " (info)", locals=…, line=override_line or ("" if start_line is None else None))`. -/
def ctxEntry (captureLocals : Bool) (file func : String) (lineno : Nat) (override : Option String)
    (desc objType varname : Option String) (startLine : Option Nat) (reprObj : String) : Summary :=
  let info := nameAndType objType varname
  let descOrRepr := match desc with | some d => if d.isEmpty then reprObj else d | none => reprObj
  ⟨file, (match startLine with | some n => if n = 0 then lineno else n | none => lineno),
   func ++ (if info.isEmpty then "" else " (" ++ info ++ ")"),
   (match override with
    | some l => some l
    | none => if startLine.isNone then some "" else none),
   (if captureLocals then some descOrRepr else none), false⟩

/-- `"# " + (subctx.description or repr(subctx))` -/
def Context.overrideLine : Context → String
  | .mk _ desc _ _ _ _ _ _ reprSelf _ _ _ =>
    "# " ++ (match desc with | some d => if d.isEmpty then reprSelf else d | none => reprSelf)

def ownSummary : Frame → Summary
  | .mk _ file func lineno _ _ _ => ⟨file, lineno, func, none, none, true⟩

def Frame.hidden : Frame → Bool
  | .mk _ _ _ _ _ hide _ => hide

mutual
  def sumStack (showContexts showHidden captureLocals : Bool) : Stack → List Summary
    | .mk _ frames _ _ => sumFrames showContexts showHidden captureLocals frames
  def sumFrames (showContexts showHidden captureLocals : Bool) : Frames → List Summary
    | .nil => []
    | .cons f rest => sumFrame showContexts showHidden captureLocals f ++ sumFrames showContexts showHidden captureLocals rest
  def sumFrame (showContexts showHidden captureLocals : Bool) : Frame → List Summary
    | .mk _head file func lineno _code hide ctxs =>
      if hide && !showHidden then [] else
        if showContexts then
          sumContexts showHidden captureLocals file func lineno ctxs ++
            (if ctxs.lastExiting then [] else [⟨file, lineno, func, none, none, true⟩])
        else [⟨file, lineno, func, none, none, true⟩]
  def sumContexts (showHidden captureLocals : Bool) (file func : String) (lineno : Nat) : Contexts → List Summary
    | .nil => []
    | .cons c rest => sumContext showHidden captureLocals file func lineno none c ++ sumContexts showHidden captureLocals file func lineno rest
  /-- `Context._frame_summaries(parent, show_hidden_frames, capture_locals, override_line)` -/
  def sumContext (showHidden captureLocals : Bool) (file func : String) (lineno : Nat) (override : Option String) : Context → List Summary
    | .mk _src desc _isAsync objType varname startLine hide _ex _reprSelf reprObj inner children =>
      if hide && !showHidden then [] else
        ctxEntry captureLocals file func lineno override desc objType varname startLine reprObj ::
          (sumInner showHidden captureLocals inner ++ sumChildren showHidden captureLocals file func lineno children)
  def sumInner (showHidden captureLocals : Bool) : Option Stack → List Summary
    | none => []
    | some s => sumStack true showHidden captureLocals s
  def sumChildren (showHidden captureLocals : Bool) (file func : String) (lineno : Nat) : Children → List Summary
    | .nil => []
    | .ctx c rest =>
      sumContext showHidden captureLocals file func lineno (some c.overrideLine) c
        ++ sumChildren showHidden captureLocals file func lineno rest
    | .stack _ rest => sumChildren showHidden captureLocals file func lineno rest   -- child task stacks are not summarised
end

/-- `format_flat`: the header, the standard traceback rendering of the summary (uninterpreted: kept as
the summary list), the leaf line, the error lines. -/
structure Flat where
  header : String
  summary : Option (List Summary)     -- none when there are no frames at all
  leafLine : Option String
  errorBlock : List String
  deriving DecidableEq, Repr

def formatFlat (showContexts : Bool) : Stack → Flat
  | .mk root frames leaf err =>
    { header := headerText root
      summary := if frames.isEmpty then none else some (sumStack showContexts false false (.mk root frames leaf err))
      leafLine := leaf.map (fun r => "  Target of innermost frame: " ++ r ++ "\n")
      errorBlock := (errorLines err).map (·.text) }

end SS.Format
