import SSModel.Gen.Consts
/-
M-D (context part): `fill_context` of stackscope/_extract.py.

    for _ in range(100):
        elaborate_context(context.obj, context)
        inner_mgr = unwrap_context(context.obj, context)
        if inner_mgr is None: break
        if inner_mgr == PRUNE: context.hide = True; break
        context.obj = inner_mgr; context.inner_stack = None; context.children = ()
    else:
        inner_mgr = unwrap_context(context.obj, context)
        raise RuntimeError("... unwrapped more than 100 times ...")

Managers are numbers (identity).  The hooks are tables: what `elaborate_context` assigns on the
Context for a manager, what `unwrap_context` returns for it.
-/
namespace SS.Fill

abbrev Mgr := Nat

structure Ctx where
  obj : Mgr
  isExiting : Bool
  innerStack : Option Nat      -- tag of whoever set it
  children : List Nat          -- tags
  description : Option Nat
  hide : Bool
  deriving DecidableEq, Repr

/-- What an `elaborate_context` hook assigns (None = leaves the field alone). -/
structure ElabC where
  setObj : Option Mgr := none
  setInner : Option Nat := none
  setChildren : Option (List Nat) := none
  setDesc : Option Nat := none
  onlyIfNotExiting : Bool := false      -- the generator-based glue sets inner_stack only when not exiting
  raises : Option Nat := none
  deriving DecidableEq, Repr

inductive UnwrapC
  | none
  | next (m : Mgr)
  | prune
  | raise (e : Nat)
  deriving DecidableEq, Repr

structure Env where
  elabCtx : Mgr → ElabC
  unwrapCtx : Mgr → UnwrapC

inductive Call
  | E (m : Mgr)       -- elaborate_context(m, context)
  | U (m : Mgr)       -- unwrap_context(m, context)
  deriving DecidableEq, Repr

inductive Outcome
  | ok
  | guard                 -- the RuntimeError of the 100-step guard
  | raised (e : Nat)      -- a hook raised: propagates out of fill_context
  deriving DecidableEq, Repr

def applyElab (e : ElabC) (c : Ctx) : Ctx :=
  let c1 := match e.setInner with
    | some t => if e.onlyIfNotExiting && c.isExiting then c else { c with innerStack := some t }
    | none => c
  let c2 := match e.setChildren with | some ch => { c1 with children := ch } | none => c1
  let c3 := match e.setDesc with | some d => { c2 with description := some d } | none => c2
  match e.setObj with | some o => { c3 with obj := o } | none => c3

/-- `n` remaining iterations of the `for` loop. -/
def loop (env : Env) : Nat → Ctx → List Call → Ctx × List Call × Outcome
  | 0, c, tr =>
    -- the `else:` clause: one more unwrap_context call for the message, then raise
    match env.unwrapCtx c.obj with
    | .raise e => (c, tr ++ [.U c.obj], .raised e)
    | _ => (c, tr ++ [.U c.obj], .guard)
  | n+1, c, tr =>
    let e := env.elabCtx c.obj
    match e.raises with
    | some x => (c, tr ++ [.E c.obj], .raised x)
    | none =>
      let c1 := applyElab e c
      let tr1 := tr ++ [.E c.obj]
      match env.unwrapCtx c1.obj with
      | .none => (c1, tr1 ++ [.U c1.obj], .ok)
      | .prune => ({ c1 with hide := true }, tr1 ++ [.U c1.obj], .ok)
      | .raise x => (c1, tr1 ++ [.U c1.obj], .raised x)
      | .next m => loop env n { c1 with obj := m, innerStack := none, children := [] } (tr1 ++ [.U c1.obj])

def fillContext (env : Env) (c : Ctx) : Ctx × List Call × Outcome := loop env SS.Gen.fillGuard c []

/-! The generator-based manager dispatch of `unwrap_generatorbased_contextmanager`: which frame is
handed to the registered `unwrap_context_generator` hook. -/
inductive GcmArg
  | frame (f : Nat)
  | noCall                -- no frames / not registered: returns None without calling the hook
  deriving DecidableEq, Repr

/-- `innerFrames`: `context.inner_stack.frames` if inner_stack is not None; `outermost`: what
`extract_outermost(mgr.gen)` gives (none = it raised RuntimeError: no frames). -/
def gcmArg (registered : Bool) (innerFrames : Option (List Nat)) (outermost : Option Nat) : GcmArg :=
  if !registered then .noCall
  else match innerFrames with
    | some (f :: _) => .frame f
    | some [] => .noCall
    | none => match outermost with
      | some f => .frame f
      | none => .noCall

end SS.Fill
