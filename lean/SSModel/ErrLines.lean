/-
M-I (error part): how `Stack._format_error` turns one element of `traceback.format_exception(...)` (a string that
may hold several physical lines and arbitrary message characters) into elements of `format()`.

Repaired code (stackscope/_types.py):
    if line.endswith("\n"): line = line[:-1]
    for subline in line.split("\n"): yield "  " + subline + "\n"
Code before F21:
    for subline in line.splitlines(True): yield "  " + subline
-/
namespace SS.ErrLines

/-- `s.split(c)` on a list of characters (never empty: `"".split("\n") == [""]`). -/
def splitOn (c : Char) : List Char → List (List Char)
  | [] => [[]]
  | x :: xs =>
    if x = c then [] :: splitOn c xs
    else match splitOn c xs with
      | [] => [[x]]
      | p :: ps => (x :: p) :: ps

/-- `if line.endswith("\n"): line = line[:-1]` -/
def dropTrailingNL (l : List Char) : List Char :=
  if l.getLast? = some '\n' then l.dropLast else l

/-- The elements the repaired `_format_error` yields for one traceback element. -/
def sublines (line : List Char) : List (List Char) :=
  (splitOn '\n' (dropTrailingNL line)).map (fun p => ' ' :: ' ' :: (p ++ ['\n']))

/-- The line boundaries of `str.splitlines` (Python documentation, "Line Boundaries"). -/
def isBoundary (c : Char) : Bool :=
  c = '\n' || c = '\r' || c = '\x0b' || c = '\x0c' || c = '\x1c' || c = '\x1d' || c = '\x1e'
  || c = Char.ofNat 0x85 || c = Char.ofNat 0x2028 || c = Char.ofNat 0x2029

/-- `s.splitlines(True)`: pieces keep their boundary; `"\r\n"` is one boundary; no empty last piece. -/
def splitlinesKeep : List Char → List (List Char)
  | [] => []
  | '\r' :: '\n' :: xs => ['\r', '\n'] :: splitlinesKeep xs
  | x :: xs =>
    if isBoundary x then [x] :: splitlinesKeep xs
    else match splitlinesKeep xs with
      | [] => [[x]]
      | p :: ps =>
        -- x joins the next piece unless that piece is a fresh one started by a boundary-only element; pieces are
        -- maximal runs ending in a boundary, so x always belongs to the piece that follows it
        (x :: p) :: ps

/-- The elements the code before F21 yielded. -/
def sublinesOld (line : List Char) : List (List Char) :=
  (splitlinesKeep line).map (fun p => ' ' :: ' ' :: p)

end SS.ErrLines
