import SSModel.Gen.Consts
import SSModel.Glue
/-!
# M-P: extraction as a pure observation (C06)

Three small models of the mechanisms C06 is anchored in.

1. **Reference counts.**  `inspect_frame` reads the first `len` slots of the value stack through a
   `ctypes.py_object` array: each read returns a *new reference* to the object the slot points to
   (NULL is recorded as `None`, which also takes a reference to `None`).  The heap is a map from object id to
   reference count; a snapshot `hold`s one reference per slot read and `release`s them when it is dropped.
2. **Type-discovery helpers.**  The glue creates one throw-away async generator and one coroutine to learn
   the types of `asend()/athrow()` awaitables and of the coroutine wrapper.  `SS.Gen.helperOps` is the
   sequence of operations the source performs on them (regenerated from `_glue.py` by the translator);
   the model says what the interpreter does when such an object is dropped: an async generator whose hooks
   were initialised (any asend/athrow/aclose call) and which is neither closed nor finished is handed to the
   event loop's *finalizer* hook; a coroutine that was never started and not closed emits "never awaited".
3. **State that outlives a call.**  `SS.Gen.stateCensus` lists every module-level container, global
   rebinding, mutable default, cache decorator and dispatch registry in the package (regenerated on every
   run); `classify` says, for the ones known, what their keys and values can be.
-/
namespace SS.Purity

/-! ## 1. reference counts -/

abbrev Heap := Nat → Nat

def incr (h : Heap) (i : Nat) : Heap := fun j => if j = i then h j + 1 else h j
def decr (h : Heap) (i : Nat) : Heap := fun j => if j = i then h j - 1 else h j

/-- The objects a snapshot holds: one per slot below the valid depth; NULL → `None` (object id `none_`). -/
def readSlots (none_ : Nat) (slots : List (Option Nat)) (len : Nat) : List Nat :=
  (slots.take len).map (fun s => s.getD none_)

def hold (h : Heap) (refs : List Nat) : Heap := refs.foldl incr h
def release (h : Heap) (refs : List Nat) : Heap := refs.foldl decr h

/-- `k` snapshots taken one after the other, all held. -/
def holdN (h : Heap) (refs : List Nat) : Nat → Heap
  | 0 => h
  | k + 1 => hold (holdN h refs k) refs

def releaseN (h : Heap) (refs : List Nat) : Nat → Heap
  | 0 => h
  | k + 1 => releaseN (release h refs) refs k

/-! ## 2. helpers -/

inductive FrameState | created | suspended | completed
  deriving DecidableEq, Repr

structure Helper where
  exists_ : Bool := false
  hooked : Bool := false          -- async generators: firstiter ran / finalizer recorded (async_gen_init_hooks)
  state : FrameState := .created
  deriving DecidableEq, Repr

structure HState where
  agen : Helper := {}
  coro : Helper := {}
  raised : Bool := false          -- an exception escaped the glue function (everything after it is skipped)
  deriving DecidableEq, Repr

/-- One operation of the generated list; anything the model does not know makes the run `none`
(a broken correspondence, never a default). -/
def hstep (s : HState) (op : String) : Option HState :=
  if s.raised then some s else
  match op with
  | "agen.create" => some { s with agen := { exists_ := true } }
  | "agen.asend" => some { s with agen := { s.agen with hooked := true } }     -- creating the awaitable initialises the hooks
  | "agen.athrow" => some { s with agen := { s.agen with hooked := true } }
  | "agen.aclose" => some { s with agen := { s.agen with hooked := true } }
  | "agen.aclose().send:caught" => some { s with agen := { s.agen with state := .completed } }
  | "agen.aclose().send:uncaught" =>
      -- closing an async generator that never started finishes at once: StopIteration escapes
      some { s with agen := { s.agen with state := .completed }, raised := true }
  | "coro.create" => some { s with coro := { exists_ := true } }
  | "coro.__await__" => some s
  | "coro.close" => some { s with coro := { s.coro with state := .completed } }
  | _ => none

def hrun (ops : List String) : Option HState := ops.foldlM hstep {}

/-- What the interpreter does when the helpers are dropped at the end of the glue function. -/
def finalizerFires (s : HState) : Bool := s.agen.exists_ && s.agen.hooked && s.agen.state != .completed
def neverAwaited (s : HState) : Bool := s.coro.exists_ && s.coro.state == .created

def helpersClean (ops : List String) : Bool :=
  match hrun ops with
  | some s => !s.raised && !finalizerFires s && !neverAwaited s
  | none => false

/-! ## 3. state census -/

inductive StateClass
  | registry        -- keyed by a type or a code object, written by register()/customize() only (glue install, user calls)
  | pendingGlue     -- module name → install function; entries are only ever removed
  | counter         -- an int in a one-element list
  | flag            -- rebinding of a module global to a bool / function
  | pypyTables      -- type tables of the PyPy back end (not used on CPython)
  deriving DecidableEq, Repr

def classify : String → Option StateClass
  | "_customization.elaborate_context:registry" => some .registry
  | "_customization.elaborate_frame:registry" => some .registry
  | "_customization.unwrap_context:registry" => some .registry
  | "_customization.unwrap_context_generator:registry" => some .registry
  | "_customization.unwrap_stackitem:registry" => some .registry
  | "_glue.add_glue_as_needed(_sys_modules_len_cache):list-default" => some .counter
  | "_glue.builtin_glue_pending:dict" => some .pendingGlue
  | "_lowlevel._can_use_trickery:global" => some .flag
  | "_lowlevel.inspect_frame:global" => some .flag
  | "_lowlevel_pypy._pypy_type_desc_from_index:list" => some .pypyTables
  | "_lowlevel_pypy._pypy_type_index_from_id:dict" => some .pypyTables
  | _ => none

/-- Can a container of this class hold (a reference to) an object of the target — a frame, a manager,
a value-stack object?  None of the known classes can: that is what the classification records. -/
def StateClass.holdsTargetObjects : StateClass → Bool
  | .registry => false | .pendingGlue => false | .counter => false | .flag => false | .pypyTables => false

/-! ## 4. the interpreter's per-frame `f_locals` snapshot (CPython ≤ 3.12)

Reading `frame.f_locals` — which stackscope does for every frame it reports (`__tracebackhide__`, `varname`
lookup) — makes the interpreter copy the fast locals into a dict kept *on the frame*; the dict holds its own
references until the next read refreshes it or the frame dies.  The reference is the frame's, not stackscope's,
but it is created by the extraction: finding F15. -/

structure FrameLocals where
  fast : List (Option Nat)               -- the fast-local slots: object ids
  snap : Option (List (Option Nat))      -- the snapshot dict's values, if one has been made
  deriving DecidableEq, Repr

def ids (xs : List (Option Nat)) : List Nat := xs.filterMap id

/-- `frame.f_locals`: the snapshot is refreshed to the current fast locals. -/
def touchLocals (h : Heap) (f : FrameLocals) : Heap × FrameLocals :=
  let h1 := hold h (ids f.fast)
  let h2 := release h1 (ids (f.snap.getD []))
  (h2, { f with snap := some f.fast })

/-- The program rebinds local `i` (to nothing, for simplicity): the fast slot's reference is dropped. -/
def rebind (h : Heap) (f : FrameLocals) (i : Nat) : Heap × FrameLocals :=
  match f.fast[i]? with
  | some (some o) => (decr h o, { f with fast := f.fast.set i none })
  | _ => (h, f)

end SS.Purity
