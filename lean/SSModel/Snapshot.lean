import SSModel.Gen.Consts
/-
M-J: `inspect_frame`'s snapshot loop (stackscope/_lowlevel_cpython_311.py) and `unwrap_thread`
(stackscope/_glue.py), as protocols between an inspector doing single atomic reads and a target thread that
may take any number of steps between two reads.

    for _ in range(10):
        lasti_before = frame.f_lasti
        ...
        for i in range(stack_len):
            assert frame.f_lasti == lasti_before
            obj = stack_ptr[i]
        assert frame.f_lasti == lasti_before
      except AssertionError: if frame.f_lasti == lasti_before: raise; continue
      break
    else: raise RuntimeError("Could not obtain a consistent stack snapshot ...")
-/
namespace SS.Snapshot

/-- What the inspector can see of the target frame at one instant. -/
structure TState where
  lasti : Nat
  stack : List Nat        -- object ids in the value-stack slots (to the depth the inspector decided to read)
  deriving DecidableEq, Repr

/-- The target's state at each of the inspector's read instants of ONE attempt that reads `n` slots:
index 0 = the initial `lasti_before` read, index 1 = the check after the stack window has been computed,
then for slot i: index 2i+2 = the check, 2i+3 = the slot read, and index 2n+2 = the final check. -/
abbrev Trace := List TState

def stateAt (tr : Trace) (k : Nat) : TState := tr.getD k ⟨0, []⟩

inductive Attempt
  | accepted (lasti : Nat) (snapshot : List Nat)
  | retry                      -- an assertion failed and f_lasti had changed: try again
  deriving DecidableEq, Repr

/-- The slot loop from slot `i` on (`fuel` slots left). -/
def attemptGo (tr : Trace) (n l0 : Nat) : Nat → Nat → List Nat → Attempt
  | i, 0, acc => if (stateAt tr (2 * n + 2)).lasti == l0 then .accepted l0 acc else .retry
  | i, fuel+1, acc =>
    if (stateAt tr (2 * i + 2)).lasti != l0 then .retry
    else attemptGo tr n l0 (i + 1) fuel (acc ++ [(stateAt tr (2 * i + 3)).stack.getD i 0])

/-- One attempt over a trace, reading `n` slots. -/
def attempt (tr : Trace) (n : Nat) : Attempt :=
  let l0 := (stateAt tr 0).lasti
  if (stateAt tr 1).lasti != l0 then .retry else attemptGo tr n l0 0 n []

inductive Result
  | snapshot (lasti : Nat) (stack : List Nat)
  | inconsistent               -- RuntimeError after the last retry
  deriving DecidableEq, Repr

/-- The retry loop: `traces` supplies the target's behaviour during each successive attempt. -/
def inspect (traces : List Trace) (n : Nat) : Nat → Result
  | 0 => .inconsistent
  | k+1 =>
    match traces with
    | [] => .inconsistent
    | tr :: rest =>
      match attempt tr n with
      | .accepted l s => .snapshot l s
      | .retry => inspect rest n k

def inspectFrame (traces : List Trace) (n : Nat) : Result := inspect traces n SS.Gen.snapshotRetries

/-! ### unwrap_thread -/

/-- `was_alive = thread.is_alive(); inner = sys._current_frames().get(thread.ident);
     if inner is None or not thread.is_alive() or not was_alive: return []` -/
def unwrapThread (wasAlive : Bool) (frameAtIdent : Option Nat) (aliveAfter : Bool) : Option Nat :=
  match frameAtIdent with
  | none => none
  | some f => if wasAlive && aliveAfter then some f else none

/-- A thread's life is an interval `[start, stop)` of instants; an OS ident belongs to at most one live thread
at a time. `owner t` = the live thread holding the ident at instant `t`. -/
structure Life where
  start : Nat
  stop : Nat
  deriving DecidableEq, Repr

def Life.aliveAt (l : Life) (t : Nat) : Bool := l.start ≤ t && t < l.stop

/-- What `unwrap_thread(thread)` hands on. -/
inductive ThreadResult
  | callerSlice            -- `StackSlice()`: the calling thread's own stack, ending at the caller
  | inner (f : Nat)        -- `StackSlice(inner=frame)`
  | nothing                -- `[]`
  deriving DecidableEq, Repr

/-- The whole function: the calling-thread test first (as the source has it: same ident *and* alive), then the guarded lookup. -/
def unwrapThreadFull (identIsCallers aliveNow wasAlive : Bool) (frameAtIdent : Option Nat) (aliveAfter : Bool) : ThreadResult :=
  if identIsCallers && aliveNow then .callerSlice
  else match unwrapThread wasAlive frameAtIdent aliveAfter with
    | some f => .inner f
    | none => .nothing

/-- As it was between the repairs of F39 and F60: the ident alone decided. -/
def unwrapThreadIdentOnly (identIsCallers wasAlive : Bool) (frameAtIdent : Option Nat) (aliveAfter : Bool) : ThreadResult :=
  if identIsCallers then .callerSlice
  else match unwrapThread wasAlive frameAtIdent aliveAfter with
    | some f => .inner f
    | none => .nothing

end SS.Snapshot
