/-
M-H (part 2): `add_glue_as_needed` / `builtin_glue_pending` of stackscope/_glue.py.

    def add_glue_as_needed(*, _sys_modules_len_cache=[0]):
        if len(sys.modules) == _sys_modules_len_cache[0]: return
        with glue_lock:
            module_names = tuple(sys.modules)
            for module_name in module_names:
                builtin_fn = builtin_glue_pending.pop(module_name, None)
                try: module_fn = sys.modules[module_name].__dict__.pop("_stackscope_install_glue_", None)
                except Exception: module_fn = None
                try:
                    if module_fn is not None: module_fn()
                    elif builtin_fn is not None: builtin_fn()
                except Exception as exc: warnings.warn(...)
            _sys_modules_len_cache[0] = len(module_names)

Modules are numbers.  Static facts about a module: does it define `_stackscope_install_glue_`, does
stackscope have built-in glue for its name, and does each of those raise.
-/
namespace SS.Glue

abbrev Mod := Nat

structure Static where
  hasModGlue : Mod → Bool
  hasBuiltin : Mod → Bool
  modRaises : Mod → Bool
  builtinRaises : Mod → Bool

inductive Ev
  | ranMod (m : Mod)        -- the module's own _stackscope_install_glue_ was called
  | ranBuiltin (m : Mod)    -- stackscope's built-in glue for that module was called
  | warn (m : Mod)          -- a RuntimeWarning "Failed to initialize ... glue for m"
  | returned                -- an extraction's add_glue_as_needed returned
  deriving DecidableEq, Repr

structure GState where
  present : List Mod          -- keys of sys.modules, insertion order
  modPopped : List Mod        -- modules whose _stackscope_install_glue_ attribute has been popped
  builtinPopped : List Mod    -- names popped from builtin_glue_pending
  cache : Nat                 -- _sys_modules_len_cache[0]
  log : List Ev
  deriving Repr

def GState.init : GState := ⟨[], [], [], 0, []⟩

/-- `builtin_glue_pending.pop(module_name, None)` finds something. -/
def builtinFn (st : Static) (g : GState) (m : Mod) : Bool := st.hasBuiltin m && !g.builtinPopped.contains m

/-- `sys.modules[name].__dict__.pop("_stackscope_install_glue_", None)` finds something
(`sys.modules[name]` raises KeyError if the module has been removed meanwhile → module_fn = None). -/
def modFn (st : Static) (g : GState) (m : Mod) : Bool :=
  g.present.contains m && st.hasModGlue m && !g.modPopped.contains m

/-- What the glue call of this iteration logs: the module's own glue is preferred. -/
def visitLog (st : Static) (g : GState) (m : Mod) : List Ev :=
  if modFn st g m then [.ranMod m] ++ (if st.modRaises m then [.warn m] else [])
  else if builtinFn st g m then [.ranBuiltin m] ++ (if st.builtinRaises m then [.warn m] else [])
  else []

/-- One iteration of the `for module_name in module_names` loop. -/
def visit (st : Static) (g : GState) (m : Mod) : GState :=
  { g with builtinPopped := if builtinFn st g m then m :: g.builtinPopped else g.builtinPopped,
           modPopped := if modFn st g m then m :: g.modPopped else g.modPopped,
           log := g.log ++ visitLog st g m }

/-- `add_glue_as_needed()` run to completion by one thread. -/
def addGlue (st : Static) (g : GState) : GState :=
  if g.present.length == g.cache then { g with log := g.log ++ [.returned] }
  else
    let names := g.present
    let g' := names.foldl (visit st) g
    { g' with cache := names.length, log := g'.log ++ [.returned] }

inductive Op
  | insert (m : Mod)     -- sys.modules[name] = module   (a re-insertion of a removed module re-adds the same object)
  | remove (m : Mod)     -- del sys.modules[name]
  | extract
  deriving DecidableEq, Repr

def step (st : Static) (g : GState) : Op → GState
  | .insert m => if g.present.contains m then g else { g with present := g.present ++ [m] }
  | .remove m => { g with present := g.present.filter (· != m) }
  | .extract => addGlue st g

def runOps (st : Static) (ops : List Op) : GState := ops.foldl (step st) GState.init

/-! ### A scan during which modules vanish

Between the snapshot `tuple(sys.modules)` and the visit of a name, that module can be removed (by a glue function of
an earlier module, or by another thread).  Since the repair of finding F16 such a name is *skipped* — neither pop
happens — and the length cache is left alone so that the next extraction scans again. -/

/-- One iteration for a name from the snapshot: skipped when the module is gone. -/
def visitR (st : Static) (g : GState) (m : Mod) : GState :=
  if g.present.contains m then visit st g m else g

/-- `add_glue_as_needed()` where the modules in `gone` are removed right after the snapshot was taken. -/
def addGlueR (st : Static) (g : GState) (gone : List Mod) : GState :=
  if g.present.length == g.cache then
    -- fast path: no scan; the modules vanish all the same
    { g with present := g.present.filter (fun m => !gone.contains m), log := g.log ++ [.returned] }
  else
    let names := g.present
    let g0 := { g with present := g.present.filter (fun m => !gone.contains m) }
    let g' := names.foldl (visitR st) g0
    let complete := names.all (fun m => g0.present.contains m)
    { g' with cache := if complete then names.length else 0, log := g'.log ++ [.returned] }      -- 0: never the size of the real sys.modules

/-- What the code did before the repair: a vanished module still had its built-in glue popped and run
(`module_fn` is None after the KeyError), and the cache was updated regardless. -/
def visitOld (st : Static) (g : GState) (m : Mod) : GState :=
  if g.present.contains m then visit st g m
  else
    let b := builtinFn st g m
    { g with builtinPopped := if b then m :: g.builtinPopped else g.builtinPopped,
             log := g.log ++ (if b then [.ranBuiltin m] ++ (if st.builtinRaises m then [.warn m] else []) else []) }

def addGlueOld (st : Static) (g : GState) (gone : List Mod) : GState :=
  if g.present.length == g.cache then
    { g with present := g.present.filter (fun m => !gone.contains m), log := g.log ++ [.returned] }
  else
    let names := g.present
    let g0 := { g with present := g.present.filter (fun m => !gone.contains m) }
    let g' := names.foldl (visitOld st) g0
    { g' with cache := names.length, log := g'.log ++ [.returned] }

inductive OpR
  | insert (m : Mod)
  | remove (m : Mod)
  | extract (gone : List Mod)        -- an extraction during whose scan these modules vanish
  deriving DecidableEq, Repr

def stepR (st : Static) (g : GState) : OpR → GState
  | .insert m => step st g (.insert m)
  | .remove m => step st g (.remove m)
  | .extract gone => addGlueR st g gone

def runOpsR (st : Static) (ops : List OpR) : GState := ops.foldl (stepR st) GState.init

def stepOld (st : Static) (g : GState) : OpR → GState
  | .insert m => step st g (.insert m)
  | .remove m => step st g (.remove m)
  | .extract gone => addGlueOld st g gone

/-! ### Modules that are still being imported (finding F44, repaired in /repo)

The import system registers a module in `sys.modules` before its body has run; a scan that happens in that window sees a
module that has not defined `_stackscope_install_glue_` *yet*.  Such a module (`__spec__._initializing`) is skipped like a
vanished one: neither pop happens, and the cache is reset so that the next extraction scans again. -/

/-- One iteration for a name from the snapshot: skipped when the module is gone or still initializing. -/
def visitI (st : Static) (init : List Mod) (g : GState) (m : Mod) : GState :=
  if init.contains m then g else visitR st g m

/-- `add_glue_as_needed()` during which the modules in `init` are still being imported. -/
def addGlueI (st : Static) (g : GState) (init : List Mod) : GState :=
  if g.present.length == g.cache then { g with log := g.log ++ [.returned] }
  else
    let names := g.present
    let g' := names.foldl (visitI st init) g
    let complete := names.all (fun m => !init.contains m)
    { g' with cache := if complete then names.length else 0, log := g'.log ++ [.returned] }

/-- What the code did before the repair: an initializing module was visited like any other. -/
def addGlueIOld (st : Static) (g : GState) (_init : List Mod) : GState := addGlue st g

/-! ### A scan during which modules appear

A glue function that imports something (its plugin, a submodule) — or another thread importing while this one sits in
a glue function — makes modules appear in `sys.modules` while a scan is running.  They are not in the scan's
snapshot; the length cache is set to the size of the snapshot that was visited, so the next extraction sees a
different length and scans again. -/

/-- `sys.modules[name] = module` for each name not yet present, in order. -/
def insertAll (p : List Mod) (ms : List Mod) : List Mod :=
  ms.foldl (fun p m => if p.contains m then p else p ++ [m]) p

/-- `add_glue_as_needed()` during which the modules in `appear` are imported (after the snapshot was taken). -/
def addGlueA (st : Static) (g : GState) (appear : List Mod) : GState :=
  if g.present.length == g.cache then
    { g with present := insertAll g.present appear, log := g.log ++ [.returned] }
  else
    let names := g.present
    let g' := names.foldl (visit st) g
    { g' with present := insertAll g'.present appear, cache := names.length, log := g'.log ++ [.returned] }

/-- The slip of seeded change C17-m7: the cache refreshed from the *live* `len(sys.modules)` at the end of the scan. -/
def addGlueALive (st : Static) (g : GState) (appear : List Mod) : GState :=
  if g.present.length == g.cache then
    { g with present := insertAll g.present appear, log := g.log ++ [.returned] }
  else
    let names := g.present
    let g' := names.foldl (visit st) g
    { g' with present := insertAll g'.present appear, cache := (insertAll g'.present appear).length, log := g'.log ++ [.returned] }

/-! The concurrent version of the routine (several threads, lock, per-thread program counters) is in
`SSModel/GlueConc.lean`. -/

end SS.Glue
