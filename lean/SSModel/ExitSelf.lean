/-
M-B (part): how `contexts_active_in_frame` (stackscope/_lowlevel.py) finds the manager of an *exiting* context: it is the object
the exit call in progress was made on, read from the next frame (the exit method's) through `inspect.getargvalues`.
-/
namespace SS.ExitSelf

/-- How the exit method's code object declares its parameters. -/
structure Sig where
  positional : List String        -- co_varnames[:co_argcount]: positional-only and positional-or-keyword names
  kwonly : List String            -- keyword-only names
  varargs : Option String         -- the name after `*`, if any
  deriving Repr, DecidableEq

/-- What a local of that frame holds: an object (by identity), or the `*args` tuple. -/
inductive Val
  | obj (id : Nat)
  | tup (ids : List Nat)
  deriving Repr, DecidableEq

abbrev Locals := List (String × Val)

def lookup (ls : Locals) (n : String) : Option Val := (ls.find? (fun p => p.1 == n)).map (·.2)

/-- `inspect.getargvalues(frame).args`: the positional names followed by the keyword-only names. -/
def getargsArgs (s : Sig) : List String := s.positional ++ s.kwonly

def asObj : Option Val → Option Nat
  | some (.obj i) => some i
  | _ => none

/-- The lookup as the source has it (after F56): a named positional parameter if the code has one (`co_argcount`), else the first
element of the varargs tuple; a name that was unbound (`del self`) gives nothing. -/
def exitingObj (s : Sig) (ls : Locals) : Option Nat :=
  match s.positional with
  | p :: _ => asObj (lookup ls p)
  | [] =>
    match s.varargs with
    | some v =>
      match lookup ls v with
      | some (.tup (i :: _)) => some i
      | _ => none
    | none => none

/-- The lookup before F56: `args.args[0]` whatever kind of parameter that is. -/
def exitingObjOld (s : Sig) (ls : Locals) : Option Nat :=
  match getargsArgs s with
  | a :: _ => asObj (lookup ls a)
  | [] => none

/-- How CPython binds the call `exit(self, a1, …)` : positional parameters take the leading arguments, the surplus goes to the
varargs tuple, keyword-only parameters take their defaults.  `none` = the call is a TypeError (too many positional arguments). -/
def bindCall (s : Sig) (args : List Nat) (kwdefaults : List Nat) : Option Locals :=
  let named := (s.positional.zip args).map (fun (n, a) => (n, Val.obj a))
  let surplus := args.drop s.positional.length
  let kws := (s.kwonly.zip kwdefaults).map (fun (n, a) => (n, Val.obj a))
  match s.varargs with
  | some v => some (named ++ [(v, Val.tup surplus)] ++ kws)
  | none => if surplus.isEmpty then some (named ++ kws) else none

end SS.ExitSelf
