import SSModel.Gen.Consts
/-
M-D: `extract_iter` / `extract_child` / `extract_outermost` of stackscope/_extract.py, transcribed with
the two deques, per-item depth and origin, the 100-step counter and `save_errors`.

Objects are identified by natural numbers (Python identity).  The user's hooks are a finite
*environment*: what `unwrap_stackitem` returns for each item, what `elaborate_frame` returns for
each frame (possibly depending on what it is handed as `next_inner`), which objects are
weak-referenceable / generator-like, and which exceptions the context analysis of a frame raises.
-/
namespace SS.Extract

abbrev Item := Nat

/-- An exception saved to `save_errors`. -/
inductive Err
  | hook (id : Nat)     -- raised by a user hook (identified by an injected id)
  | guard               -- RuntimeError "... has been unwrapped more than 100 times ..."
  deriving DecidableEq, Repr

/-- A `stackscope.Frame` as built by extract_iter: the python frame and its origin. -/
structure FrameRec where
  pyframe : Item
  origin : Option Item
  deriving DecidableEq, Repr

/-- A Python object that can sit in the queues. -/
inductive Obj
  | item (i : Item)          -- any object that is not a stackscope.Frame (raw python frames included)
  | none                     -- Python `None`
  | frameObj (f : FrameRec)  -- a stackscope.Frame built earlier in this extraction
  deriving DecidableEq, Repr

/-- What `unwrap_stackitem(item)` does. -/
inductive UnwrapRes
  | none                                              -- returns None: irreducible
  | one (i : Item)                                    -- a single non-sequence object
  | seq (is : List (Option Item))                     -- a tuple / list (None entries are skipped)
  | iter (is : List (Option Item)) (fail : Option Nat) -- @yields_frames iterator: items, then StopIteration or an exception
  | raise (e : Nat)
  deriving Repr

/-- An element of an `elaborate_frame` result. -/
inductive Elem
  | item (i : Item)
  | none
  | next            -- the very object passed as `next_inner`
  deriving DecidableEq, Repr

/-- What `elaborate_frame(frame, next_inner)` does (besides setting `frame.hide`). -/
inductive ElabRes
  | none
  | one (e : Elem)
  | seq (es : List Elem)      -- `PRUNE` is `seq []`
  | raise (e : Nat)
  deriving Repr

/-- How the hook sees `next_inner`. -/
inductive NextView
  | none
  | leaf (i : Item)
  | frame (i : Item)
  deriving DecidableEq, Repr

structure Env where
  isFrame : Item → Bool                -- isinstance(x, types.FrameType)
  unwrap : Item → UnwrapRes
  elabFn : Item → NextView → ElabRes
  elabHide : Item → Bool               -- the hook sets frame.hide = True (before returning / raising)
  weakrefable : Item → Bool
  genLike : Item → Bool                -- coroutine / generator / async generator object
  frameOf : Item → Option Item         -- cr_frame / gi_frame / ag_frame of such an object
  withContexts : Bool
  ctxErrs : Item → List Nat            -- exceptions raised while analysing / filling this frame's contexts

structure QE where
  origin : Option Item
  cur : Obj
  depth : Nat
  deriving DecidableEq, Repr

structure EE where
  node : Obj
  depth : Nat
  deriving DecidableEq, Repr

structure OutFrame where
  frame : FrameRec
  hide : Bool
  deriving DecidableEq, Repr

/-- `Stack.leaf`. -/
inductive Leaf
  | none
  | one (o : Obj)
  | many (os : List Obj)
  deriving DecidableEq, Repr

structure St where
  toUnwrap : List QE
  toElab : List EE
  loops : Nat
  errors : List Err
  out : List OutFrame
  deriving Repr

/-- `better_origin(candidate, fallback)`. -/
def betterOrigin (env : Env) (cand : Obj) (fallback : Option Item) : Option Item :=
  match cand with
  | .item i =>
    if env.weakrefable i then
      if env.genLike i || !(match fallback with | some f => env.genLike f | none => false) then some i
      else fallback
    else fallback
  | .none => fallback       -- weakref.ref(None) raises TypeError
  | .frameObj _ => fallback -- (a Frame is weak-referenceable, but the origin of an already built Frame is never read)

def optObj : Option Item → Obj
  | some i => .item i
  | none => .none

/-- Queue the results of an unwrap: `for item in reversed(xs): if item is not None: appendleft(...)`. -/
def pushUnwrapped (env : Env) (xs : List (Option Item)) (origin : Option Item) (depth : Nat) (q : List QE) : List QE :=
  (xs.filterMap (fun x => x.map (fun i => (⟨betterOrigin env (.item i) origin, .item i, depth + 1⟩ : QE)))) ++ q

/-- The item turned out irreducible (or its hook failed): it becomes a leaf candidate. -/
def asLeaf (s : St) (cur : Obj) (depth : Nat) (errs : List Err) : St :=
  { s with toElab := s.toElab ++ [⟨cur, depth⟩], loops := 0, errors := s.errors ++ errs }

def UnwrapRes.raised : UnwrapRes → Option Nat
  | .raise e => Option.some e
  | _ => Option.none

def UnwrapRes.isNone : UnwrapRes → Bool
  | .none => true
  | _ => false

/-- The items an unwrap result yields (for an iterator: those yielded before it stopped or failed). -/
def UnwrapRes.children : UnwrapRes → List (Option Item)
  | .one i => [Option.some i]
  | .seq xs => xs
  | .iter xs _ => xs
  | _ => []

def UnwrapRes.iterErrs : UnwrapRes → List Err
  | .iter _ (Option.some e) => [.hook e]
  | _ => []

/-- The body of the `try: unwrapped = unwrap_stackitem(current) ...` part for hook result `r`. -/
def handleUnwrap (env : Env) (s : St) (q : QE) (r : UnwrapRes) : St :=
  match r.raised with
  | some e => asLeaf s q.cur q.depth [.hook e]          -- the hook raised: saved, treated as irreducible
  | none =>
    if s.loops + 1 > SS.Gen.unwrapGuard then asLeaf s q.cur q.depth [.guard]   -- the RuntimeError of the guard
    else if r.isNone then asLeaf s q.cur q.depth []
    else { s with toUnwrap := pushUnwrapped env r.children q.origin q.depth s.toUnwrap,
                  loops := s.loops + 1, errors := s.errors ++ r.iterErrs }

/-- The origin recorded when the raw python frame `cur` is wrapped: a coroutine / generator / async
generator is kept only for its own frame. -/
def wrapOrigin (env : Env) (cur : Item) : Option Item → Option Item
  | some o => if env.genLike o && env.frameOf o == some cur then some o else none
  | none => none

/-- One iteration of the inner `while to_unwrap ...` loop, for the popped entry `q`
(`s.toUnwrap` is already the rest). -/
def unwrapStep (env : Env) (s : St) (q : QE) : St :=
  match q.cur with
  | .frameObj f => { s with toElab := s.toElab ++ [⟨.frameObj f, q.depth⟩], loops := 0 }
  | .item i =>
    if env.isFrame i then
      { s with toElab := s.toElab ++ [⟨.frameObj ⟨i, wrapOrigin env i q.origin⟩, q.depth⟩], loops := 0 }
    else handleUnwrap env s q (env.unwrap i)
  | .none => handleUnwrap env s q .none   -- singledispatch default for NoneType returns None

/-- The inner loop: runs until `to_unwrap` is empty (its second condition,
`not isinstance(to_elaborate[0], Frame)`, tests a tuple and is always true). -/
def unwrapPhase (env : Env) : Nat → St → Option St
  | 0, _ => none
  | fuel+1, s =>
    match s.toUnwrap with
    | [] => some s
    | q :: rest => unwrapPhase env fuel (unwrapStep env { s with toUnwrap := rest } q)

def nextView : Option EE → NextView
  | none => .none
  | some ⟨.frameObj f, _⟩ => .frame f.pyframe
  | some ⟨.item i, _⟩ => .leaf i
  | some ⟨.none, _⟩ => .none

def nextObj : Option EE → Obj
  | none => .none
  | some e => e.node

def resolveElem (next : Obj) : Elem → Obj
  | .item i => .item i
  | .none => .none
  | .next => next

inductive Outcome
  | done (frames : List OutFrame) (leaf : Leaf) (errors : List Err)
  | outOfFuel
  deriving DecidableEq, Repr

/-- What the `elaborate_frame` call produced: the replacement items (None = keep), the final `hide`
flag, and the exception saved if it raised (then: PRUNE, un-hidden). -/
def elabOutcome (env : Env) (f : FrameRec) (next : Obj) (r : ElabRes) : Option (List Obj) × Bool × List Err :=
  match r with
  | .none => (none, env.elabHide f.pyframe, [])
  | .one e =>
    -- a hook that returns `next_inner` when that is None has returned None
    if resolveElem next e = .none then (none, env.elabHide f.pyframe, [])
    else (some [resolveElem next e], env.elabHide f.pyframe, [])
  | .seq es => (some (es.map (resolveElem next)), env.elabHide f.pyframe, [])
  | .raise e => (some [], false, [.hook e])

/-- `while to_elaborate: to_unwrap.appendleft((None, *to_elaborate.pop()))` -/
def backOf (rest : List EE) : List QE := rest.map (fun e => ⟨none, e.node, e.depth⟩)

/-- Is this a replacement (as opposed to an insertion before `next_inner`)?
`not items or items[-1] is not next_inner` -/
def replacing (items : List Obj) (next : Obj) : Bool := items = [] || items.getLast? != some next

/-- `to_unwrap[0] = (origin, item, min(depth, next_depth))`: the queued next_inner must not look deeper than
the inserting frame. -/
def capHead (d : Nat) : List QE → List QE
  | [] => []
  | q :: qs => { q with depth := min d q.depth } :: qs

/-- The new `to_unwrap` after a frame at depth `d` returned `items`. -/
def requeue (env : Env) (d : Nat) (next : Obj) (items : List Obj) (rest : List EE) : List QE :=
  if replacing items next then
    items.map (fun o => ⟨betterOrigin env o none, o, d⟩) ++ (backOf rest).dropWhile (fun q => q.depth ≥ d)
  else
    items.dropLast.map (fun o => ⟨betterOrigin env o none, o, d⟩) ++ capHead d (backOf rest)

/-- After the unwrap phase: elaborate the first pending frame, or finish. Returns either the final
outcome or the state at the head of the next outer-loop iteration. -/
def elabStep (env : Env) (s : St) : Sum Outcome St :=
  match s.toElab with
  | [] => .inl (.done s.out .none s.errors)
  | ⟨.frameObj f, d⟩ :: rest =>
    let next := nextObj rest.head?
    let ctxE : List Err := if env.withContexts then (env.ctxErrs f.pyframe).map .hook else []
    let r := elabOutcome env f next (env.elabFn f.pyframe (nextView rest.head?))
    let s1 : St := { s with out := s.out ++ [⟨f, r.2.1⟩], errors := s.errors ++ ctxE ++ r.2.2, loops := 0 }
    match r.1 with
    | none => .inr { s1 with toElab := rest }
    | some items => .inr { s1 with toUnwrap := requeue env d next items rest, toElab := [] }
  | es =>
    -- reached a leaf: everything still pending is the leaf
    .inl (.done s.out (match es with | [e] => .one e.node | _ => .many (es.map (·.node))) s.errors)

/-- The outer `while to_unwrap or to_elaborate` loop. `fuel` bounds outer iterations and each unwrap
phase; Python has no such bound (see `C10_F9_diverges`). -/
def run (env : Env) : Nat → St → Outcome
  | 0, _ => .outOfFuel
  | fuel+1, s =>
    match unwrapPhase env (fuel+1) s with
    | none => .outOfFuel
    | some s' =>
      match elabStep env s' with
      | .inl o => o
      | .inr s'' => run env fuel s''

def initSt (env : Env) (x : Item) : St :=
  { toUnwrap := [⟨betterOrigin env (.item x) none, .item x, 0⟩], toElab := [], loops := 0, errors := [], out := [] }

/-- `extract(x)` up to the construction of the Stack. -/
def extract (env : Env) (fuel : Nat) (x : Item) : Outcome := run env fuel (initSt env x)


/-! ### The same loop with Python's *partial* operations made explicit (for C05)

`deque.popleft()` / `deque.pop()` / `seq[-1]` raise `IndexError` on an empty container, and `assert`
raises `AssertionError`; none of these sits inside a `try` in `extract_iter`, so each would escape
`extract()`.  `runX` performs them as partial operations; C05 proves it never fails. -/

inductive Crash
  | index       -- IndexError: pop from an empty deque / index out of range
  | assertion   -- AssertionError
  deriving DecidableEq, Repr

def popleft? {α : Type} : List α → Except Crash (α × List α)
  | [] => .error .index
  | x :: xs => .ok (x, xs)

def last! {α : Type} : List α → Except Crash α
  | [] => .error .index
  | x :: xs => .ok ((x :: xs).getLast (by simp))

def elabStepX (env : Env) (s : St) : Except Crash (Sum Outcome St) := do
  -- if not to_elaborate: break
  if s.toElab.isEmpty then return .inl (.done s.out .none s.errors)
  -- if not isinstance(to_elaborate[0][0], Frame):
  let (first, _) ← popleft? s.toElab                    -- to_elaborate[0]
  match first.node with
  | .frameObj _ =>
    let (fd, rest) ← popleft? s.toElab                  -- frame, depth = to_elaborate.popleft()
    match fd.node with
    | .frameObj f =>
      let d := fd.depth
      let next := nextObj rest.head?
      let ctxE : List Err := if env.withContexts then (env.ctxErrs f.pyframe).map .hook else []
      let r := elabOutcome env f next (env.elabFn f.pyframe (nextView rest.head?))
      let s1 : St := { s with out := s.out ++ [⟨f, r.2.1⟩], errors := s.errors ++ ctxE ++ r.2.2, loops := 0 }
      match r.1 with
      | none => return .inr { s1 with toElab := rest }
      | some items =>
        -- `not items or items[-1] is not next_inner`: items[-1] is only evaluated when items is non-empty
        let repl ← (if items.isEmpty then pure true else do
                      let l ← last! items
                      pure (l != next))
        let q : List QE :=
          if repl then items.map (fun o => ⟨betterOrigin env o none, o, d⟩) ++ (backOf rest).dropWhile (fun q => q.depth ≥ d)
          else items.dropLast.map (fun o => ⟨betterOrigin env o none, o, d⟩) ++ capHead d (backOf rest)
        return .inr { s1 with toUnwrap := q, toElab := [] }
    | _ => throw .assertion                              -- assert isinstance(frame, Frame)
  | _ =>
    -- reached a leaf:  assert not to_unwrap
    if !s.toUnwrap.isEmpty then throw .assertion
    return .inl (.done s.out (match s.toElab with | [e] => .one e.node | es => .many (es.map (·.node))) s.errors)

def runX (env : Env) : Nat → St → Except Crash Outcome
  | 0, _ => .ok .outOfFuel
  | fuel+1, s =>
    match unwrapPhase env (fuel+1) s with
    | none => .ok .outOfFuel
    | some s' =>
      match elabStepX env s' with
      | .error c => .error c
      | .ok (.inl o) => .ok o
      | .ok (.inr s'') => runX env fuel s''

/-- `extract_outermost(x)`: `next(extract_iter(x, errors))` — the first frame the generator yields; if it
finishes without yielding, raise the group / the single recorded error / a RuntimeError. -/
inductive OutermostRes
  | frame (f : OutFrame)
  | raiseGroup (es : List Err)
  | raiseRecorded (e : Err)
  | raiseNoFrame (leaf : Leaf)
  | outOfFuel
  deriving DecidableEq, Repr

def runFirst (env : Env) : Nat → St → OutermostRes
  | 0, _ => .outOfFuel
  | fuel+1, s =>
    match unwrapPhase env (fuel+1) s with
    | none => .outOfFuel
    | some s' =>
      match elabStep env s' with
      | .inl (.done _ l es) =>
        (match es with
         | [] => .raiseNoFrame l
         | [e] => .raiseRecorded e
         | es => .raiseGroup es)
      | .inl .outOfFuel => .outOfFuel
      | .inr s'' =>
        match s''.out with
        | f :: _ => .frame f          -- the generator is suspended at its first `yield frame`
        | [] => runFirst env fuel s''  -- unreachable: elabStep's .inr always emits

def extractOutermost (env : Env) (fuel : Nat) (x : Item) : OutermostRes := runFirst env fuel (initSt env x)

/-- `Stack.error`: nothing, the only exception, or an ExceptionGroup of all of them. -/
inductive StackError
  | none
  | single (e : Err)
  | group (es : List Err)
  deriving DecidableEq, Repr

def stackError : List Err → StackError
  | [] => .none
  | [e] => .single e
  | es => .group es

end SS.Extract
