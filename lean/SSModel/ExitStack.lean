/-
M-F (contextlib part): what `ExitStack` / `AsyncExitStack` store for each registration call
(contextlib's `_push_cm_exit`, `_push_exit_callback`, `_create_cb_wrapper`, … — CPython, assumed and
measured by the harness) and how `elaborate_exit_stack` of stackscope/_glue.py classifies each stored
callback into a child Context.
-/
namespace SS.ExitStack

abbrev Obj := Nat

/-- The eight registration calls (plus which kind of argument `push` / `push_async_exit` received). -/
inductive Op
  | enterContext (m : Obj)            -- stack.enter_context(cm)
  | pushManager (m : Obj)             -- stack.push(cm)          (object whose type has __exit__)
  | pushFunction (f : Obj)            -- stack.push(function)
  | pushBoundMethod (self : Obj) (name : Nat)   -- stack.push(obj.method)
  | pushBuiltinBound (self : Obj)     -- stack.push(lock.__exit__): a bound method of a C-implemented object
  | pushBuiltinFunction (f : Obj)     -- stack.push(print): a builtin function (its __self__ is its module)
  | enterContextAliased (m : Obj)     -- stack.enter_context(cm) where type(cm).__exit__ is an alias of / decorator around another name
  | enterAsyncContextAliased (m : Obj)  -- the same for __aexit__
  | callback (f : Obj)                -- stack.callback(f, *args, **kw)
  | enterAsyncContext (m : Obj)       -- await stack.enter_async_context(cm)
  | pushAsyncExitManager (m : Obj)    -- stack.push_async_exit(cm)   (type has __aexit__)
  | pushAsyncExitFunction (f : Obj)   -- stack.push_async_exit(coroutine function)
  | pushAsyncCallback (f : Obj)       -- stack.push_async_callback(f, *args, **kw)
  deriving DecidableEq, Repr

/-- What ends up in `_exit_callbacks`. -/
inductive Callback
  | exitMethod (m : Obj)              -- MethodType(type(m).__exit__ / __aexit__, m): __func__.__name__ is "__exit__"/"__aexit__"
  | boundOther (self : Obj) (name : Nat)   -- some other bound method
  | builtinBound (self : Obj)         -- a builtin bound method: has __self__, is not a types.MethodType, has no __func__
  | builtinFunction (f : Obj)         -- a builtin function: has __self__ (a module object), is not a types.MethodType
  | exitAlias (m : Obj)               -- MethodType(type(m).__exit__ / __aexit__, m) whose __func__.__name__ is something else
  | exitWrapper (f : Obj)             -- contextlib's _exit_wrapper, __wrapped__ = f, closes over args / kwds
  | plain (f : Obj)                   -- a plain function (no __self__, not an _exit_wrapper)
  deriving DecidableEq, Repr

structure Entry where
  isSync : Bool
  cb : Callback
  deriving DecidableEq, Repr

/-- contextlib: the entry each registration call appends. -/
def register : Op → Entry
  | .enterContext m => ⟨true, .exitMethod m⟩
  | .pushManager m => ⟨true, .exitMethod m⟩
  | .pushFunction f => ⟨true, .plain f⟩
  | .pushBoundMethod s n => ⟨true, .boundOther s n⟩
  | .pushBuiltinBound s => ⟨true, .builtinBound s⟩
  | .pushBuiltinFunction f => ⟨true, .builtinFunction f⟩
  | .enterContextAliased m => ⟨true, .exitAlias m⟩
  | .enterAsyncContextAliased m => ⟨false, .exitAlias m⟩
  | .callback f => ⟨true, .exitWrapper f⟩
  | .enterAsyncContext m => ⟨false, .exitMethod m⟩
  | .pushAsyncExitManager m => ⟨false, .exitMethod m⟩
  | .pushAsyncExitFunction f => ⟨false, .plain f⟩
  | .pushAsyncCallback f => ⟨false, .exitWrapper f⟩

inductive Method
  | enterContext | enterAsyncContext | push | pushAsyncExit | callback | pushAsyncCallback
  deriving DecidableEq, Repr

/-- What identifies the child: the manager object, or the stored callable. -/
inductive ChildObj
  | manager (m : Obj)
  | callable (c : Callback)
  deriving DecidableEq, Repr

structure Child where
  obj : ChildObj
  isAsync : Bool
  method : Method
  awaitTag : Bool          -- description starts with "await "
  index : Nat              -- varname is "<stack>[index]"
  deriving DecidableEq, Repr

/-- `elaborate_exit_stack`'s classification of one `(is_sync, callback)` pair at position `idx`. -/
def classify (idx : Nat) (e : Entry) : Child :=
  match e.cb with
  | .exitMethod m =>        -- hasattr(__self__), MethodType, __func__.__name__ in ("__exit__", "__aexit__")
    ⟨.manager m, !e.isSync, if e.isSync then .enterContext else .enterAsyncContext, !e.isSync, idx⟩
  | .boundOther s n =>      -- hasattr(__self__) but some other method: stack.push(something.exit_ish_method)
    ⟨.manager s, !e.isSync, if e.isSync then .push else .pushAsyncExit, false, idx⟩
  | .builtinBound s =>      -- hasattr(__self__), __self__ is not a module, not a MethodType: stack.push(something.exit_ish_method)
    ⟨.manager s, !e.isSync, if e.isSync then .push else .pushAsyncExit, false, idx⟩
  | .builtinFunction f =>   -- __self__ is a module: not bound to a manager at all; an exit-ish function
    ⟨.callable (.builtinFunction f), !e.isSync, if e.isSync then .push else .pushAsyncExit, false, idx⟩
  | .exitAlias m =>         -- MethodType whose __func__ is type(__self__).__exit__ / __aexit__ under another name
    ⟨.manager m, !e.isSync, if e.isSync then .enterContext else .enterAsyncContext, !e.isSync, idx⟩
  | .exitWrapper f =>       -- __wrapped__ and __name__ == "_exit_wrapper" with args/kwds free variables
    ⟨.callable (.exitWrapper f), !e.isSync, if e.isSync then .callback else .pushAsyncCallback, false, idx⟩
  | .plain f =>
    ⟨.callable (.plain f), !e.isSync, if e.isSync then .push else .pushAsyncExit, false, idx⟩

/-- `for idx, (is_sync, callback) in enumerate(callbacks)` -/
def elaborate (entries : List Entry) : List Child := (entries.zipIdx).map (fun p => classify p.2 p.1)

/-- The specification, read off the registration calls alone.  `push(manager)` is identified with
`enter_context(manager)` (and `push_async_exit(manager)` with `enter_async_context(manager)`): contextlib
stores byte-identical entries for them. -/
def specOf (idx : Nat) : Op → Child
  | .enterContext m => ⟨.manager m, false, .enterContext, false, idx⟩
  | .pushManager m => ⟨.manager m, false, .enterContext, false, idx⟩
  | .pushFunction f => ⟨.callable (.plain f), false, .push, false, idx⟩
  | .pushBoundMethod s n => ⟨.manager s, false, .push, false, idx⟩
  | .pushBuiltinBound s => ⟨.manager s, false, .push, false, idx⟩
  | .pushBuiltinFunction f => ⟨.callable (.builtinFunction f), false, .push, false, idx⟩
  | .enterContextAliased m => ⟨.manager m, false, .enterContext, false, idx⟩
  | .enterAsyncContextAliased m => ⟨.manager m, true, .enterAsyncContext, true, idx⟩
  | .callback f => ⟨.callable (.exitWrapper f), false, .callback, false, idx⟩
  | .enterAsyncContext m => ⟨.manager m, true, .enterAsyncContext, true, idx⟩
  | .pushAsyncExitManager m => ⟨.manager m, true, .enterAsyncContext, true, idx⟩
  | .pushAsyncExitFunction f => ⟨.callable (.plain f), true, .pushAsyncExit, false, idx⟩
  | .pushAsyncCallback f => ⟨.callable (.exitWrapper f), true, .pushAsyncCallback, false, idx⟩

end SS.ExitStack

namespace SS.ExitStack

/-! ### The stack over time: registration, `pop_all()`, and unwinding (`__exit__` pops callbacks LIFO) -/

/-- One event in the life of an exit stack. -/
inductive Ev
  | reg (op : Op)     -- any of the registration calls
  | popAll            -- `new = stack.pop_all()`: the callbacks move to a fresh stack, this one is left empty
  | popOne            -- the exiting stack pops its last callback (`_exit_callbacks.pop()`) before calling it
  deriving DecidableEq, Repr

structure St where
  cur : List Entry      -- `_exit_callbacks` of the stack itself
  moved : List Entry    -- `_exit_callbacks` of the stack most recently returned by `pop_all()`
  deriving DecidableEq, Repr

def St.init : St := ⟨[], []⟩

def stepEv (s : St) : Ev → St
  | .reg op => { s with cur := s.cur ++ [register op] }
  | .popAll => { cur := [], moved := s.cur }
  | .popOne => { s with cur := s.cur.dropLast }

def runEvs (evs : List Ev) : St := evs.foldl stepEv St.init

/-- The specification on the registration calls alone: which of them are still pending on the stack … -/
def liveStep (l : List Op × List Op) : Ev → List Op × List Op
  | .reg op => (l.1 ++ [op], l.2)
  | .popAll => ([], l.1)
  | .popOne => (l.1.dropLast, l.2)

/-- … `(pending on the stack, pending on the stack pop_all() returned)`. -/
def liveOps (evs : List Ev) : List Op × List Op := evs.foldl liveStep ([], [])

end SS.ExitStack
