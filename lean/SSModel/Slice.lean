/-
M-G: `unwrap_stackslice` / `unwrap_greenlet` of stackscope/_glue.py and the argument mapping of
`extract_since` / `extract_until` (_extract.py), for the calling thread.

The calling thread's stack is a list of greenlet *segments*, the current greenlet first, then its parent,
grandparent, … up to the main greenlet.  Each segment lists its frames innermost first (the order in
which `f_back` visits them); inside a segment `f_back` leads to the next element, and at the end of a
segment it is None (CPython).  The first frame of the first segment is the "true caller" (stackscope's
own frames are already skipped by `get_true_caller`).
-/
namespace SS.Slice

abbrev Frame := Nat

structure World where
  segs : List (List Frame)       -- current greenlet first; each innermost-first
  others : List (List Frame) := []   -- f_back chains (innermost first) of frames not on this thread's stack:
                                     -- suspended greenlets, other threads
  threads : List Frame := []         -- `sys._current_frames()` of the OTHER threads: the innermost frame of each, in dict order
  deriving Repr

/-- `f_back` chain starting at `f` (inclusive), within its own segment. -/
def fbackChain (w : World) (f : Frame) : List Frame :=
  match (w.segs ++ w.others).find? (fun s => s.contains f) with
  | some s => s.dropWhile (· != f)
  | none => [f]                   -- a frame that is not running on this thread: suspended, no callers

/-- `l[a:b:-1]` for the arguments that occur (`b = None` or a non-negative index). -/
def revSlice {α : Type} (l : List α) (a : Nat) (b : Option Nat) : List α :=
  if l.isEmpty then [] else
    let start := min a (l.length - 1)
    let lo := match b with | none => 0 | some k => k + 1
    ((l.take (start + 1)).drop lo).reverse

/-- `list.index(x)`; none = ValueError. -/
def indexOf? (l : List Frame) (x : Frame) : Option Nat :=
  let i := l.findIdx (· == x)
  if i < l.length then some i else none

/-- `try_from(potential_inner_frame)` -/
def tryFrom (w : World) (outer : Option Frame) (pi : Frame) : List Frame :=
  let chain := fbackChain w pi
  match outer with
  | none => chain.reverse
  | some o =>
    if chain.contains o then ((chain.takeWhile (· != o)) ++ [o]).reverse else []

inductive Res
  | frames (fs : List Frame)
  | notRunning (outer : Frame)     -- yields outer_frame, then RuntimeError "Couldn't find where the above frame is running"
  deriving DecidableEq, Repr

/-- The nested-greenlet branch: `this_thread_frames[to_idx:from_idx:-1]`, or `[]` on ValueError. -/
def greenletSlice (ttf : List Frame) (outer inner : Option Frame) : List Frame :=
  let fromIdx : Option (Option Nat) :=            -- outer none = ValueError
    match inner with
    | none => some none
    | some i => if ttf.head? == some i then some none else (indexOf? ttf i).map (fun k => some (k - 1))
  let toIdx : Option Nat := match outer with | none => some ttf.length | some o => indexOf? ttf o
  match fromIdx, toIdx with
  | some f, some t => revSlice ttf t f
  | _, _ => []

/-- `if spec.limit is not None and len(frames) > spec.limit: del frames[limit:]  or  del frames[:-limit]` -/
def applyLimit (frames : List Frame) (outer inner : Option Frame) (limit : Option Nat) : List Frame :=
  match limit with
  | some n =>
    if frames.length > n then
      (if inner.isNone && outer.isSome then frames.take n              -- del frames[limit:]
       else if n = 0 then frames                                       -- del frames[:-0] deletes nothing
       else frames.drop (frames.length - n))                           -- del frames[:-limit]
    else frames
  | none => frames

/-- `for ident, other_frame in sys._current_frames().items(): frames = try_from(other_frame); if frames: break` -/
def searchThreads (w : World) (outer : Option Frame) : List Frame → List Frame
  | [] => []
  | t :: ts => let r := tryFrom w outer t; if r.isEmpty then searchThreads w outer ts else r

/-- `unwrap_stackslice(StackSlice(outer, inner, limit))` on the calling thread; when `outer` is not found there
and no `inner` was given, the other threads' stacks (`w.threads`) are searched in order. -/
def unwrapSlice (w : World) (outer inner : Option Frame) (limit : Option Nat) : Res :=
  let caller : Frame := (w.segs.head?.bind List.head?).getD 0
  let first : List Frame :=
    if w.segs.length ≥ 2 then greenletSlice w.segs.flatten outer inner    -- greenlet_getcurrent().parent is not None
    else []
  let second0 := if first.isEmpty then tryFrom w outer (inner.getD caller) else first
  -- outer_frame isn't on *our* stack, but it might be on some other thread's stack
  let second := if second0.isEmpty && inner.isNone then searchThreads w outer w.threads else second0
  if second.isEmpty then
    match outer with
    | some o => .notRunning o
    | none => .frames []          -- unreachable: try_from with outer None is never empty
  else .frames (applyLimit second outer inner limit)

/-- The code before the repair of F26: the search loop was written `for ident, inner_frame in ...`, which rebinds the local
that the limit's anchor test reads; after a search that looked at any thread, `inner_frame` is that thread's frame. -/
def unwrapSliceOld (w : World) (outer inner : Option Frame) (limit : Option Nat) : Res :=
  let caller : Frame := (w.segs.head?.bind List.head?).getD 0
  let first : List Frame :=
    if w.segs.length ≥ 2 then greenletSlice w.segs.flatten outer inner
    else []
  let second0 := if first.isEmpty then tryFrom w outer (inner.getD caller) else first
  let searched := second0.isEmpty && inner.isNone
  let second := if searched then searchThreads w outer w.threads else second0
  -- the frame the loop variable was last bound to: the thread on which the search stopped (or the last one)
  let rebound : Option Frame :=
    if searched then
      (match w.threads.find? (fun t => !(tryFrom w outer t).isEmpty) with
       | some t => some t
       | none => w.threads.getLast?)
    else inner
  if second.isEmpty then
    match outer with
    | some o => .notRunning o
    | none => .frames []
  else .frames (applyLimit second outer (if searched then rebound else inner) limit)

/-! ### the specification: a contiguous slice of the true stack -/

/-- The thread's true stack, outermost first: main greenlet's frames, …, the current greenlet's, ending
with the caller — the path an exception raised in the caller would propagate along, reversed. -/
def trueStack (w : World) : List Frame := w.segs.flatten.reverse

/-- The frames from position `o` to position `i` (inclusive) of the true stack, with the limit keeping
the frames nearest the anchor (`outer` if only outer is given, otherwise `inner` / the caller). -/
def specSlice (w : World) (o : Option Nat) (i : Option Nat) (limit : Option Nat) : List Frame :=
  let T := trueStack w
  let lo := o.getD 0
  let hi := i.getD (T.length - 1)
  let s := (T.take (hi + 1)).drop lo
  match limit with
  | none => s
  | some n => if i.isNone && o.isSome then s.take n else s.drop (s.length - n)

/-! ### greenlets -/

inductive GState
  | current                  -- the greenlet making the call
  | suspended (frames : List Frame)   -- innermost (gr_frame) first; f_back chain ends at its entry function
  | notStarted
  | dead
  | otherThread              -- running in another thread: gr_frame is None but it is not the current one
  deriving DecidableEq, Repr

inductive GRes
  | none                            -- returns []
  | error                           -- RuntimeError "Can't dump the stack of a greenlet running in another thread"
  | slice (outer inner : Option Frame)
  deriving DecidableEq, Repr

/-- `unwrap_greenlet(glet)`: which StackSlice (if any) it hands on. `hasParent`: glet.parent is not None. -/
def unwrapGreenlet (w : World) (g : GState) (hasParent : Bool) : GRes :=
  match g with
  | .notStarted => .none
  | .dead => .none
  | .otherThread => .error
  | .current =>
    let caller : Frame := (w.segs.head?.bind List.head?).getD 0
    if hasParent then
      -- walk f_back from the caller to the end of this greenlet's own segment
      .slice ((w.segs.head?.bind List.getLast?)) (some caller)
    else .slice none (some caller)
  | .suspended fs =>
    -- its stack ends where its own f_back chain ends
    .slice fs.getLast? fs.head?

end SS.Slice
