/-
M-B/M-H: the fallback side of stackscope/_lowlevel.py:
`set_trickery_enabled`, `_check_trickery_available`, `contexts_active_in_frame`'s try/except around the
trickery analysis, and `_contexts_active_by_referents`.
-/
namespace SS.Trickery

/-! ### the mode switch: a tri-state cell behind a lock -/

inductive Op
  | set (v : Option Bool)      -- set_trickery_enabled(True / False / None)
  | query                      -- any contexts_active_in_frame call: _check_trickery_available()
  deriving DecidableEq, Repr

/-- `_check_trickery_available()`: the stored value if there is one, else auto-detect (and store it). -/
def check (auto : Bool) (cell : Option Bool) : Bool × Option Bool :=
  match cell with
  | some b => (b, some b)
  | none => (auto, some auto)

def run (auto : Bool) : List Op → Option Bool → List Bool
  | [], _ => []
  | .set v :: rest, _ => run auto rest v
  | .query :: rest, cell => (check auto cell).1 :: run auto rest (check auto cell).2

/-- What every query should see: the value of the latest `set` before it, auto-detection if that was
`None` or there was none. -/
def spec (auto : Bool) : List Op → Option Bool → List Bool
  | [], _ => []
  | .set v :: rest, _ => spec auto rest v
  | .query :: rest, last => (last.getD auto) :: spec auto rest last

/-! ### contexts_active_in_frame: trickery, or on any failure a warning and the referents analysis -/

inductive Analysis (α : Type)
  | ok (r : α)
  | raises (e : Nat)

structure Outcome (α : Type) where
  result : α
  warnings : Nat          -- number of InspectionWarnings issued by this call
  raised : Bool           -- did an exception escape contexts_active_in_frame

def contextsActive {α : Type} (useTrickery : Bool) (trickery : Analysis α) (referents : α) : Outcome α :=
  if useTrickery then
    match trickery with
    | .ok r => ⟨r, 0, false⟩
    | .raises _ => ⟨referents, 1, false⟩       -- except Exception: warnings.warn(...); ret = by_referents
  else ⟨referents, 0, false⟩

/-! ### the referents analysis -/

/-- What `gc.get_referents(frame or generator)` yields, in order (locals, then value-stack slots bottom to
top): bound `__exit__` / `__aexit__` methods of some object, or anything else. -/
inductive Ref
  | exitMethod (self : Nat) (isAsync : Bool)
  | other
  deriving DecidableEq, Repr

structure Ctx where
  obj : Option Nat
  isAsync : Bool
  isExiting : Bool
  deriving DecidableEq, Repr

def ofRef : Ref → Option Ctx
  | .exitMethod m a => some ⟨some m, a, false⟩
  | .other => none

/-- `_contexts_active_by_referents`: one context per exit method found, in referent order, then the exiting
one (from `currently_exiting_context`) if any. -/
def byReferents (refs : List Ref) (exiting : Option Bool) : List Ctx :=
  refs.filterMap ofRef ++ (match exiting with | some a => [⟨none, a, true⟩] | none => [])

/-! ### one call of `_check_trickery_available` while other threads change the setting

`set_trickery_enabled` needs `_trickery_lock`; the fast path of `_check_trickery_available` does not hold it, so the setting may
change between any two of its steps.  `obs k` is what the module-level cell holds at the call's k-th read.  The result is what the
caller gets: `some b`, or `none` for Python's `None` (which `contexts_active_in_frame` treats as false). -/

/-- `reads` = how many times the fast path loads the global before the lock (generated from the source: `Gen.trickeryFastPathReads`).
One read: `enabled = cell; if enabled is not None: return enabled`.  Two reads: `if cell is not None: return cell`. -/
def checkConc (reads : Nat) (auto : Bool) (obs : Nat → Option Bool) : Option Bool :=
  if reads == 1 then
    match obs 0 with
    | some b => some b
    | none =>
      -- under the lock nothing changes between the test and the return: one observation
      match obs 1 with
      | some b => some b
      | none => some auto
  else
    match obs 0 with
    | some _ => obs 1                -- the second read returns whatever is there now
    | none =>
      match obs 2 with
      | some b => some b
      | none => some auto

/-- A result is *explained* by the history if it is the value some observed setting stands for (auto-detection for `None`). -/
def Explained (auto : Bool) (obs : Nat → Option Bool) (n : Nat) (r : Option Bool) : Prop :=
  ∃ b, r = some b ∧ ∃ k, k < n ∧ (obs k).getD auto = b

end SS.Trickery
