import dis, sys, types, warnings
import stackscope
from stackscope import _lowlevel as ll

@types.coroutine
def trap(v):
    return (yield v)

class M:
    def __init__(s,n): s.n=n
    def __repr__(s): return f"M{s.n}"
    async def __aenter__(s): return s
    async def __aexit__(s,*e): await trap(("aexit",s.n))
    def __enter__(s): return s
    def __exit__(s,*e): return False

async def f(c):
    async with M(1) as a:
        async with M(2) as b:
            try:
                c()
            except KeyError:
                pass

dis.dis(f)
print(f.__code__.co_exceptiontable)
for e in ll._parse_exception_table(f.__code__): print(e)
co=f(lambda:None)
with warnings.catch_warnings(record=True) as w:
    warnings.simplefilter("always")
    print(co.send(None))
    print(co.cr_frame.f_lasti)
    print(ll.contexts_active_in_frame(co.cr_frame, co))
    print([str(x.message)[:100] for x in w])
