import sys, contextlib, gc
import stackscope
from stackscope import Stack, Frame, Context
from contextlib import ExitStack
# falsy manager in ExitStack
class FalsyCM(list):
    def __enter__(s): return s
    def __exit__(s,*e): pass
def g():
    with ExitStack() as st:
        st.enter_context(FalsyCM())
        yield
gi=g(); next(gi)
c = stackscope.extract(gi).frames[0].contexts[0]
print("falsy:", [ (type(ch.obj).__name__, ch.description) for ch in c.children])

# format ambiguity
f = Frame(pyframe=gi.gi_frame)
class R:
    def __repr__(s): return "thing"
c1 = Context(obj=None, is_async=False, children=[Stack(root=R(), frames=[])])
c2 = Context(obj=None, is_async=False, children=[Context(obj=None,is_async=False, description="thing")])
f1 = Frame(pyframe=gi.gi_frame, contexts=[c1]); f2 = Frame(pyframe=gi.gi_frame, contexts=[c2])
a = Stack(root=None, frames=[f1]).format(); b = Stack(root=None, frames=[f2]).format()
print("".join(a)); print(a==b)
# child ctx w/ inner stack vs child stack w/ frames
inner = Stack(root=R(), frames=[Frame(pyframe=gi.gi_frame)])
c3 = Context(obj=None, is_async=False, children=[inner])
c4 = Context(obj=None, is_async=False, children=[Context(obj=None,is_async=False, description="thing", inner_stack=inner)])
for c in (c3,c4):
    print("".join(Stack(root=None, frames=[Frame(pyframe=gi.gi_frame, contexts=[c])]).format()).replace(" ","·"))
