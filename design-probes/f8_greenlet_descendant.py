import sys, types
import stackscope, greenlet
def deep(n, fn):
    if n: return deep(n-1, fn)
    return fn()
main = greenlet.getcurrent()
def gbody():
    return deep(2, lambda: main.switch("sus"))
g = greenlet.greenlet(gbody)
def outer_main(): return deep(1, lambda: g.switch())
print(outer_main())
print("from main:", [f.funcname for f in stackscope.extract(g).frames])
def asker_parented():
    r = [f.funcname for f in stackscope.extract(g).frames]
    main.switch(r)
g3 = greenlet.greenlet(asker_parented, parent=g)  # descendant of g
def call_g3(): return deep(1, lambda: g3.switch())
print("from child of g:", call_g3())
