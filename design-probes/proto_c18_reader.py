"""Throwaway: recursive-descent reader for Stack.format() (Unicode) + skeleton round trip on random trees."""
import random, sys
import stackscope
from stackscope import Stack, Frame, Context
def mkframes(n):
    out=[]
    for k in range(n):
        ns={}; exec(f"def fn{k}():\n    yield\n",ns); g=ns[f"fn{k}"](); next(g); out.append(g)
    return out
GENS=mkframes(4)
class R:
    def __init__(s,t): s.t=t
    def __repr__(s): return s.t
def rnd_stack(r,depth,child=False):
    nf=r.randrange(0,3) if depth>0 else r.randrange(0,2)
    frames=[rnd_frame(r,depth) for _ in range(nf)]
    return Stack(root=(R("root%d"%r.randrange(9)) if r.random()<0.7 else None), frames=frames,
                 leaf=(R("leaf") if r.random()<0.3 else None),
                 error=(ValueError("boom") if r.random()<0.25 else None))
def rnd_frame(r,depth):
    g=r.choice(GENS)
    ctxs=[rnd_ctx(r,depth-1) for _ in range(r.randrange(0,3))] if depth>0 else []
    if ctxs and r.random()<0.3: ctxs[-1].is_exiting=True
    return Frame(pyframe=g.gi_frame, contexts=ctxs, hide=r.random()<0.2, hide_line=r.random()<0.2)
def rnd_ctx(r,depth):
    c=Context(obj=(R("mgr") if r.random()<0.5 else None), is_async=r.random()<0.5,
              varname=(r.choice(["x","a.b"]) if r.random()<0.5 else None),
              start_line=(r.choice([1,2]) if r.random()<0.5 else None),
              description=(r.choice(["desc(...)","other"]) if r.random()<0.5 else None), hide=r.random()<0.15)
    if depth>0 and r.random()<0.4: c.inner_stack=rnd_stack(r,depth-1)
    if depth>0:
        ch=[]
        for _ in range(r.randrange(0,3)):
            ch.append(rnd_ctx(r,depth-1) if r.random()<0.5 else rnd_stack(r,depth-1,True))
        c.children=ch
    return c
# ---- skeleton of the object (what the text is claimed to determine), for given options
def sk_stack(s,show_hidden,show_ctx):
    return ('S',[sk_frame(f,show_hidden,show_ctx) for f in s.frames if show_hidden or not f.hide], s.leaf is not None, s.error is not None)
def sk_frame(f,sh,sc):
    ctxs=[sk_ctx(c,sh) for c in f.contexts if sh or not c.hide] if sc else []
    code = not (f.contexts and f.contexts[-1].is_exiting) and bool(f.linetext)
    return ('F',ctxs,code)
def sk_ctx(c,sh):
    inner = sk_stack(c.inner_stack,sh,True) if c.inner_stack is not None else None
    kids=[]
    for ch in c.children:
        if isinstance(ch,Context):
            if not sh and ch.hide: continue
            k=sk_ctx(ch,sh); kids.append(('K','ctx',k[1],k[2]))
        else:
            st=sk_stack(ch,sh,True)
            kids.append(('K','stack',st,[]))
    return ('C',inner,kids)
def erase(sk):
    """erase child kind where the text cannot determine it: frameless children"""
    t=sk[0]
    if t=='S': return ('S',[erase(f) for f in sk[1]],sk[2],sk[3])
    if t=='F': return ('F',[erase(c) for c in sk[1]],sk[2])
    if t=='C':
        inner=None if sk[1] is None else erase(sk[1])
        if inner is not None and not inner[1] and not inner[2] and not inner[3]: inner=None
        return ('C',inner,[erase(k) for k in sk[2]])
    if t=='K':
        _,kind,inner,kids=sk
        inner_e = None if inner is None else erase(inner)
        has_frames = inner_e is not None and len(inner_e[1])>0
        # ctx child, or frameless stack: normalise an empty inner (no frames, no leaf, no error) to None
        if inner_e is not None and not inner_e[1] and not inner_e[2] and not inner_e[3]: inner_e=None
        return ('K','other',inner_e,[erase(k) for k in kids])
# ---- reader
def blank(l): return not l.strip()
def parse_stack_body(lines):
    """lines: after the header. returns ('S',frames,leaf,error)"""
    frames=[];cur=None;leaf=False;err=False
    for l in lines:
        if l.startswith("╠ "): cur=[l[2:]]; frames.append(cur)
        elif l.startswith("║ "): cur.append(l[2:])
        elif l.startswith("╚ "): leaf=True
        elif l.startswith("  Error while extracting stack:"): err=True
        elif l.startswith("  ") or blank(l): pass   # error text / blank
        else: raise ValueError("stack line? %r"%l)
    return ('S',[parse_frame(f) for f in frames],leaf,err)
def parse_frame(lines):
    ctxs=[];cur=None;code=False
    for l in lines[1:]:
        if l.startswith("├─"): cur.append(l[2:])
        elif l.startswith("├ "): cur=[l[2:]]; ctxs.append(cur)
        elif l.startswith("│ "): cur.append(l[2:])
        elif l.startswith("└ "): code=True
        else: raise ValueError("frame line? %r"%l)
    return ('F',[parse_ctx(c) for c in ctxs],code)
def split_children(X):
    """X: continuation lines of a context (after its first line). returns (inner_lines, [child line lists])"""
    inner=[];kids=[];cur=None
    for l in X:
        if l.startswith("─ "): cur=[l[2:]]; kids.append(cur)
        elif blank(l): (cur if cur is not None else inner).append("")
        elif cur is None: inner.append(l)
        elif l.startswith("  "): cur.append(l[2:])
        else: raise ValueError("ctx line? %r"%l)
    return inner,kids
def parse_inner(inner):
    body=[l for l in inner if not blank(l)]
    if not body: return None
    return parse_stack_body(body)
def parse_ctx(lines):
    inner,kids=split_children(lines[1:])
    return ('C',parse_inner(inner),[parse_child(k) for k in kids])
def parse_child(lines):
    Y=lines[1:]
    inner,kids=split_children(Y)
    ends_blank = bool(Y) and blank(Y[-1])
    st=parse_inner(inner)
    return ('K','other',st,[parse_child_ctxkid(k) for k in kids])
def parse_child_ctxkid(lines): return parse_child(lines)
r=random.Random(int(sys.argv[1]) if len(sys.argv)>1 else 0)
ok=bad=0; ex=None
for case in range(3000):
    st=rnd_stack(r,3)
    for sh in (False,True):
        for sc in (False,True):
            lines=[l.rstrip("\n") for l in st.format(show_hidden_frames=sh,show_contexts=sc)]
            assert all(l.endswith("\n") and l.count("\n")==1 for l in st.format(show_hidden_frames=sh,show_contexts=sc))
            try: got=parse_stack_body(lines[1:])
            except Exception as e: got=('ERR',repr(e))
            exp=erase(sk_stack(st,sh,sc))
            if got==exp: ok+=1
            else:
                bad+=1
                if ex is None: ex=(st,sh,sc,exp,got)
print(dict(ok=ok,bad=bad))
if ex:
    st,sh,sc,exp,got=ex
    print("".join(st.format(show_hidden_frames=sh,show_contexts=sc))); print("EXP",exp); print("GOT",got)
