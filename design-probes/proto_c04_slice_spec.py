"""Throwaway: StackSlice cross product vs take/drop spec, with and without a greenlet split."""
import sys, itertools, greenlet
import stackscope
from stackscope import StackSlice, extract
def run(depth_main, depth_g):
    res={}
    frames=[]
    def rec(n, fn):
        frames.append(sys._getframe(0))
        if n: return rec(n-1, fn)
        return fn()
    def probe():
        frames.append(sys._getframe(0))
        true=list(frames)                      # outermost..innermost (our instrumented part)
        bad=[]; n=0
        cands=[None]+true
        for o in cands:
            for i in cands:
                for lim in [None]+list(range(1,len(true)+2)):
                    st=extract(StackSlice(outer=o,inner=i,limit=lim),with_contexts=False)
                    got=[f.pyframe for f in st.frames]
                    # spec on the *whole* true stack: walk f_back/parent from probe frame
                    n+=1
                    res.setdefault('cases',0); res['cases']+=1
                    full=whole()
                    io = full.index(o) if o is not None else 0
                    ii = full.index(i) if i is not None else len(full)-1
                    if io>ii: exp=None   # outer inward of inner: unspecified here
                    else:
                        exp=full[io:ii+1]
                        if lim is not None and len(exp)>lim:
                            exp = exp[:lim] if (i is None and o is not None) else exp[-lim:]
                    if exp is not None and (got!=exp or st.error is not None):
                        bad.append((cands.index(o),cands.index(i),lim,[full.index(f) if f in full else '?' for f in got],[full.index(f) for f in exp],repr(st.error)[:60]))
        return bad
    def whole():
        out=[]; g=greenlet.getcurrent(); f=sys._getframe(2)   # caller of whole() is probe
        f=frames[-1]
        while g is not None:
            while f is not None: out.append(f); f=f.f_back
            g=g.parent
            if g is not None: f=g.gr_frame
        return out[::-1]
    if depth_g is None:
        return rec(depth_main, probe), res
    else:
        def body(): return rec(depth_g, probe)
        g=greenlet.greenlet(body)
        return rec(depth_main, lambda: g.switch()), res
for dm,dg in [(2,None),(1,1),(2,2)]:
    bad,res=run(dm,dg)
    print((dm,dg), res, "mismatches:", len(bad))
    for b in bad[:6]: print("   ", b)
