"""Throwaway prototype: abstract-stack certificate for CPython 3.12 code objects."""
import dis, sys, os, types, sysconfig, warnings, time, collections
from types import SimpleNamespace as NS
from stackscope import _lowlevel as ll
assert sys.version_info[:2]==(3,12)
op=dis.opmap
def bits(n): return bin(n).count("1")
FIXED = {  # name: (pops, pushes)
 'NOP':(0,0),'RESUME':(0,0),'CACHE':(0,0),'POP_TOP':(1,0),'PUSH_NULL':(0,1),'END_FOR':(2,0),'END_SEND':(2,1),
 'UNARY_NEGATIVE':(1,1),'UNARY_NOT':(1,1),'UNARY_INVERT':(1,1),'BINARY_SUBSCR':(2,1),'BINARY_SLICE':(3,1),'STORE_SLICE':(4,0),
 'GET_LEN':(1,2),'MATCH_MAPPING':(1,2),'MATCH_SEQUENCE':(1,2),'MATCH_KEYS':(2,3),'PUSH_EXC_INFO':(1,2),'CHECK_EXC_MATCH':(2,2),
 'CHECK_EG_MATCH':(2,2),'WITH_EXCEPT_START':(0,1),'GET_AITER':(1,1),'GET_ANEXT':(1,2),'BEFORE_ASYNC_WITH':(1,2),'BEFORE_WITH':(1,2),
 'END_ASYNC_FOR':(2,0),'CLEANUP_THROW':(3,2),'STORE_SUBSCR':(3,0),'DELETE_SUBSCR':(2,0),'GET_ITER':(1,1),'GET_YIELD_FROM_ITER':(1,1),
 'LOAD_BUILD_CLASS':(0,1),'LOAD_ASSERTION_ERROR':(0,1),'RETURN_GENERATOR':(0,1),'SETUP_ANNOTATIONS':(0,0),'LOAD_LOCALS':(0,1),
 'POP_EXCEPT':(1,0),'STORE_NAME':(1,0),'DELETE_NAME':(0,0),'STORE_ATTR':(2,0),'DELETE_ATTR':(1,0),'STORE_GLOBAL':(1,0),'DELETE_GLOBAL':(0,0),
 'LOAD_CONST':(0,1),'LOAD_NAME':(0,1),'COMPARE_OP':(2,1),'IMPORT_NAME':(2,1),'IMPORT_FROM':(1,2),'IS_OP':(2,1),'CONTAINS_OP':(2,1),
 'BINARY_OP':(2,1),'LOAD_FAST':(0,1),'STORE_FAST':(1,0),'DELETE_FAST':(0,0),'LOAD_FAST_CHECK':(0,1),'LOAD_FAST_AND_CLEAR':(0,1),
 'GET_AWAITABLE':(1,1),'MAKE_CELL':(0,0),'LOAD_CLOSURE':(0,1),'LOAD_DEREF':(0,1),'STORE_DEREF':(1,0),'DELETE_DEREF':(0,0),
 'COPY_FREE_VARS':(0,0),'YIELD_VALUE':(1,1),'MATCH_CLASS':(3,1),'LIST_APPEND':(1,0),'SET_ADD':(1,0),'MAP_ADD':(2,0),
 'LIST_EXTEND':(1,0),'SET_UPDATE':(1,0),'DICT_UPDATE':(1,0),'DICT_MERGE':(1,0),'KW_NAMES':(0,0),'CALL_INTRINSIC_1':(1,1),
 'CALL_INTRINSIC_2':(2,1),'LOAD_FROM_DICT_OR_GLOBALS':(1,1),'LOAD_FROM_DICT_OR_DEREF':(1,1),'SEND':(1,1),'FOR_ITER':(0,1),
 'POP_JUMP_IF_FALSE':(1,0),'POP_JUMP_IF_TRUE':(1,0),'POP_JUMP_IF_NONE':(1,0),'POP_JUMP_IF_NOT_NONE':(1,0),
 'JUMP_FORWARD':(0,0),'JUMP_BACKWARD':(0,0),'JUMP_BACKWARD_NO_INTERRUPT':(0,0),'STORE_FAST_MAYBE_NULL':(1,0),
}
def effect(name,arg):
    if name in FIXED: return FIXED[name]
    if name=='CALL': return (arg+2,1)
    if name=='CALL_FUNCTION_EX': return (3+(arg&1),1)
    if name=='LOAD_GLOBAL': return (0,1+(arg&1))
    if name=='LOAD_ATTR': return (1,1+(arg&1))
    if name in('LOAD_SUPER_ATTR',): return (3,1+(arg&1))
    if name in('BUILD_TUPLE','BUILD_LIST','BUILD_SET','BUILD_STRING'): return (arg,1)
    if name=='BUILD_MAP': return (2*arg,1)
    if name=='BUILD_CONST_KEY_MAP': return (arg+1,1)
    if name=='BUILD_SLICE': return (arg,1)
    if name=='UNPACK_SEQUENCE': return (1,arg)
    if name=='UNPACK_EX': return (1,(arg&0xff)+(arg>>8)+1)
    if name=='FORMAT_VALUE': return (1+(1 if (arg&4) else 0),1)
    if name=='MAKE_FUNCTION': return (1+bits(arg&0x0f),1)
    if name=='RAISE_VARARGS': return (arg,0)
    if name=='RERAISE': return (1,0)
    if name=='RETURN_VALUE': return (1,0)
    if name in('RETURN_CONST','INTERPRETER_EXIT'): return (0,0)
    raise KeyError(name)
TERMINAL={'RETURN_VALUE','RETURN_CONST','RAISE_VARARGS','RERAISE','INTERPRETER_EXIT'}
UNCOND={'JUMP_FORWARD','JUMP_BACKWARD','JUMP_BACKWARD_NO_INTERRUPT'}
class Reject(Exception): pass
def certify(co):
    ins=[i for i in dis.get_instructions(co)]   # no CACHE entries shown
    off2idx={i.offset:k for k,i in enumerate(ins)}
    tbl=list(ll._parse_exception_table(co))
    def cover(off):
        for e in tbl:
            if e[0]<=off<=e[1]: return e
        return None
    G={}
    todo=[(0,())]
    while todo:
        k,st=todo.pop()
        if k in G:
            if G[k]!=st: raise Reject(f"join mismatch at {ins[k].offset}: {G[k]} vs {st}")
            continue
        G[k]=st
        i=ins[k]; name=i.opname; arg=i.arg or 0
        # exception edge
        e=cover(i.offset)
        if e is not None:
            start,end,target,depth,lasti=e
            if depth>len(st): raise Reject(f"handler depth {depth} > stack {len(st)} at {i.offset}")
            hst=st[:depth]+(('o',) if lasti else ())+('o',)
            tk=off2idx[target]
            if ins[tk].opname=='PUSH_EXC_INFO' and ins[tk+1].opname=='WITH_EXCEPT_START':
                if not(depth>=1 and isinstance(st[depth-1],tuple) and st[depth-1][0]=='E'): raise Reject(f"with-handler entry without exit slot at {i.offset}")
                hst=hst[:depth-1]+(('H',st[depth-1][1]),)+hst[depth:]
            todo.append((off2idx[target],hst))
        if name=='EXTENDED_ARG':
            nst=st
        elif name=='WITH_EXCEPT_START':
            if not(len(st)>=4 and isinstance(st[-4],tuple) and st[-4][0]=='H'): raise Reject(f"WITH_EXCEPT_START without exit slot at {i.offset}: {st}")
            nst=st+('o',)
        elif name in('COPY',):
            v=st[-arg]; 
            if v!='o': raise Reject(f"COPY of {v} at {i.offset}")
            nst=st+('o',)
        elif name=='SWAP':
            l=list(st); l[-1],l[-arg]=l[-arg],l[-1]
            nst=tuple(l)
        else:
            pops,pushes=effect(name,arg)
            if pops>len(st): raise Reject(f"underflow at {i.offset} {name}")
            popped=st[len(st)-pops:]
            base=st[:len(st)-pops]
            if name in('BEFORE_WITH','BEFORE_ASYNC_WITH'):
                nst=base+(('E',k),('A',k) if name=='BEFORE_ASYNC_WITH' else 'o')
            elif name=='CALL' and arg==2 and len(popped)==4 and isinstance(popped[0],tuple) and popped[0][0]=='E':
                if popped[1:]!=('o','o','o'): raise Reject("exit call args")
                nst=base+('o',)
            else:
                keepA = name in('GET_AWAITABLE',) and isinstance(popped[0],tuple) and popped[0][0]=='A'
                for v in popped:
                    if isinstance(v,tuple) and v[0]=='E': raise Reject(f"{name} consumes exit slot {v} at {i.offset}")
                nst=base+((popped[0],) if keepA else ('o',)*pushes)
                if name=='SEND':      # [recv, v] -> [recv, v']
                    nst=st[:-1]+('o',)
                if name=='END_SEND': nst=st[:-2]+('o',)
                if name=='CLEANUP_THROW': nst=st[:-3]+('o','o')
        if name in TERMINAL: continue
        if i.opcode in dis.hasjrel or i.opcode in dis.hasjabs:
            t=off2idx[i.argval]
            if name=='FOR_ITER': todo.append((t,nst))
            elif name=='SEND': todo.append((t,nst))
            else: todo.append((t,nst))
            if name in UNCOND: continue
        todo.append((k+1,nst))
    return ins,off2idx,tbl,G
def chain(tbl,off):
    out=[]; cur=off; n=0
    while True:
        e=None
        for x in tbl:
            if x[0]<=cur<=x[1]: e=x;break
        if e is None: return out
        out.append(e); cur=e[2]; n+=1
        if n>len(tbl)+1: raise Reject("cyclic table")
def walk(co):
    yield co
    for c in co.co_consts:
        if isinstance(c, types.CodeType): yield from walk(c)
if __name__=="__main__":
    stdlib = sysconfig.get_paths()["stdlib"]
    stats=collections.Counter(); rejects=[]; bad=[]
    t0=time.time()
    for root, dirs, files in os.walk(stdlib):
        if "site-packages" in root or "test" in root.split(os.sep): continue
        for fn in files:
            if not fn.endswith(".py"): continue
            p=os.path.join(root,fn)
            try: top=compile(open(p,'rb').read(),p,"exec")
            except Exception: continue
            for co in walk(top):
                stats['codes']+=1
                try: ins,off2idx,tbl,G=certify(co)
                except Reject as r:
                    stats['rejected']+=1; rejects.append((p.replace(stdlib,''),co.co_name,str(r))); continue
                except KeyError as r:
                    stats['unknown_op']+=1; rejects.append((p,co.co_name,'op '+str(r))); continue
                # table WF: forward targets, disjoint sorted
                for a,b in zip(tbl,tbl[1:]):
                    if not (a[1]<b[0]): stats['tbl_overlap']+=1
                for e in tbl:
                    if not e[2]>e[1]: stats['tbl_backward_target']+=1
                wb=ll.analyze_with_blocks(co)   # handler -> Context
                # handler -> with index
                h2w={}
                for k,i in enumerate(ins):
                    if i.opname in('BEFORE_WITH','BEFORE_ASYNC_WITH'): stats['withs']+=1
                # map with k -> handler by finding first pc where E_k protected: use analyze's start_to_handler logic indirectly:
                # handler of with k := target of the entry covering the first instruction after which ('E',k) is in G and entry depth == idx+1 & target starts PUSH_EXC_INFO,WITH_EXCEPT_START
                whandlers={h for h in wb}
                for k,st in G.items():
                    i=ins[k]
                    ch=chain(tbl,i.offset)
                    wh=[(e[2],e[3]) for e in ch if e[2] in whandlers]
                    for (h,lvl) in wh:
                        if lvl>len(st) or not(isinstance(st[lvl-1],tuple) and st[lvl-1][0]=='E'):
                            stats['level_not_exit']+=1; bad.append((p.replace(stdlib,''),co.co_name,i.offset,'level',h,lvl,st)); continue
                        w=st[lvl-1][1]
                        if h2w.setdefault(h,w)!=w: stats['handler_two_withs']+=1
                    if i.opname=='YIELD_VALUE' or i.opname=='CALL' or i.opname=='SEND':
                        stats['sites']+=1
                        if i.opname=='WITH_EXCEPT_START': pass
                        es=[(idx+1,v[1]) for idx,v in enumerate(st) if isinstance(v,tuple) and v[0]=='E']
                        entering={v[1] for v in st if isinstance(v,tuple) and v[0]=='A'}
                        exiting=set()
                        if i.opname=='CALL' and (i.arg==2) and len(st)>=4 and isinstance(st[-4],tuple) and st[-4][0]=='E': exiting={st[-4][1]}
                        exp=sorted((l,w) for (l,w) in es if w not in entering and w not in exiting)
                        got=sorted((lvl,h2w.get(h)) for (h,lvl) in wh)
                        if exp!=got:
                            stats['site_mismatch']+=1
                            if len(bad)<10: bad.append((p.replace(stdlib,''),co.co_name,i.offset,i.opname,'exp',exp,'got',got))
                # exit-site resolution truth vs implementation
                w2h={w:h for h,w in h2w.items()}
                for k,st in G.items():
                    i=ins[k]
                    if i.opname=='CALL' and i.arg==2 and len(st)>=4 and isinstance(st[-4],tuple) and st[-4][0]=='E':
                        stats['exit_sites']+=1
                        truth=w2h.get(st[-4][1])
                        with warnings.catch_warnings(record=True) as wl:
                            warnings.simplefilter("always")
                            r=ll.currently_exiting_context(NS(f_code=co,f_lasti=i.offset))
                        if truth is None: stats['exit_truth_unknown']+=1
                        elif r is None: stats['exit_none']+=1
                        elif r.cleanup_offset!=truth:
                            stats['exit_wrong']+=1
                            if r.cleanup_offset in wb: stats['exit_wrong_silent']+=1
    print(dict(stats), round(time.time()-t0,1),'s')
    for r in rejects[:12]: print('REJ',r)
    for b in bad[:12]: print('BAD',b)
