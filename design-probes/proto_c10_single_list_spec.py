"""Throwaway: single-list reference spec for extract_iter vs the real thing on random hook tables."""
import random, sys, itertools, signal
import stackscope
from stackscope import unwrap_stackitem, elaborate_frame, PRUNE, yields_frames
NF=5; NI=5
# frames: suspended generators with distinct code objects
gens=[]; 
for k in range(NF):
    ns={}; exec(f"def F{k}():\n    yield\n", ns); g=ns[f"F{k}"](); next(g); gens.append(g)
frames=[g.gi_frame for g in gens]
fidx={id(f):k for k,f in enumerate(frames)}
class Item:
    def __init__(s,k): s.k=k
    def __repr__(s): return f"I{s.k}"
items=[Item(k) for k in range(NI)]
TABLE={}
def node(tok):  # tok: ('f',k) | ('i',k)
    return frames[tok[1]] if tok[0]=='f' else items[tok[1]]
@unwrap_stackitem.register(Item)
def _uw(it):
    kind,toks=TABLE['unwrap'][it.k]
    if kind=='none': return None
    if kind=='one': return node(toks[0])
    if kind=='tuple': return tuple(node(t) for t in toks)
    if kind=='list': return [node(t) for t in toks]
    if kind=='iter':
        @yields_frames
        def gen():
            yield from (node(t) for t in toks)
        return gen()
def mk_elab(k):
    def hook(frame, nxt):
        kind,toks=TABLE['elab'][k]
        if kind=='keep': return None
        if kind=='prune': return PRUNE
        if kind=='replace1': return node(toks[0])
        if kind=='replace': return [node(t) for t in toks]
        if kind=='insert': return tuple(node(t) for t in toks)+(nxt,)
    return hook
for k,f in enumerate(frames): elaborate_frame.register(f.f_code, mk_elab(k))

def spec(root_tok, fixed):
    """returns (frames idx list, leaf repr). L: list of [depth, tok, reduced?]; tok ('f',k)|('i',k)|('leaf',k)"""
    out=[]; L=[(0,root_tok)]
    steps=0
    while True:
        # normalise
        i=0; since=0
        N=[]
        work=list(L)
        res=[]
        while work:
            d,t=work.pop(0)
            if t[0] in('f','leaf') or t[0]=='F': res.append((d,t)); since=0; continue
            kind,toks=TABLE['unwrap'][t[1]]
            since+=1
            if since>100: res.append((d,('leaf',t[1]))); since=0; continue
            if kind=='none': res.append((d,('leaf',t[1]))); since=0; continue
            work=[(d+1,x) for x in toks]+work
            steps+=1
            if steps>5000: return None
        L=res
        if not L: return out,None
        d,t=L[0]
        if t[0]=='leaf':
            return out,[x[1] for x in L]
        # frame
        k=t[1]; nxt=L[1] if len(L)>1 else None
        out.append(k)
        if len(out)>60: return None
        kind,toks=TABLE['elab'][k]
        tail=L[1:]
        if kind=='keep': L=tail
        elif kind in('prune','replace','replace1'):
            new=[] if kind=='prune' else [(d,x) for x in toks]
            while tail and tail[0][0]>=d: tail=tail[1:]
            L=new+tail
        elif kind=='insert':
            if fixed:
                L=[(d,x) for x in toks]+tail
            else:
                if not tail: return 'IndexError'
                L=[(d,x) for x in toks]+[(d,tail[0][1])]+tail[1:]
def canon_leaf(leaf):
    def one(x):
        if x is None: return None
        if isinstance(x,Item): return ('leaf',x.k)
        if isinstance(x,stackscope.Frame): return ('f',fidx[id(x.pyframe)])
        return repr(x)
    if leaf is None: return None
    if isinstance(leaf,list): return [one(x) for x in leaf]
    return [one(leaf)]
def rand_toks(r,n,acyc_from=None):
    out=[]
    for _ in range(n):
        if r.random()<0.5: out.append(('f',r.randrange(NF)))
        else:
            lo=0 if acyc_from is None else acyc_from+1
            if lo>=NI: out.append(('f',r.randrange(NF)))
            else: out.append(('i',r.randrange(lo,NI)))
    return out
def onalarm(*a): raise TimeoutError
signal.signal(signal.SIGALRM,onalarm)
r=random.Random(int(sys.argv[1]) if len(sys.argv)>1 else 0)
agree=dis_unfixed=dis_fixed=skipped=idxerr=0; ex=[]
for case in range(4000):
    TABLE['unwrap']={}
    for k in range(NI):
        kind=r.choice(['none','one','tuple','list','iter','tuple'])
        n=0 if kind=='none' else 1 if kind=='one' else r.randrange(0,4)
        TABLE['unwrap'][k]=(kind,rand_toks(r,n,acyc_from=k))     # acyclic items (higher index only)
    TABLE['elab']={}
    for k in range(NF):
        kind=r.choice(['keep','keep','prune','replace1','replace','insert'])
        n=1 if kind=='replace1' else r.randrange(0,3) if kind=='replace' else r.randrange(1,3) if kind=='insert' else 0
        # avoid infinite elaboration: replacement items only reference frames with larger index / items
        toks=[]
        for _ in range(n):
            if r.random()<0.5 and k+1<NF: toks.append(('f',r.randrange(k+1,NF)))
            else: toks.append(('i',r.randrange(NI)))
        TABLE['elab'][k]=(kind,toks)
    s_un=spec(('i',0),False); s_fx=spec(('i',0),True)
    if s_un is None or s_fx is None: skipped+=1; continue
    signal.alarm(5)
    try:
        st=stackscope.extract(items[0],with_contexts=False)
        real=([fidx[id(f.pyframe)] for f in st.frames], canon_leaf(st.leaf))
    except IndexError: real='IndexError'
    except TimeoutError: real='HANG'
    signal.alarm(0)
    def norm(s): 
        if s=='IndexError': return s
        return (s[0], None if s[1] is None else [x for x in s[1]])
    if real==norm(s_un) if real!='HANG' else False: agree+=1
    else:
        dis_unfixed+=1
        if len(ex)<5: ex.append((dict(TABLE['unwrap']),dict(TABLE['elab']),real,s_un))
    if real!=norm(s_fx): dis_fixed+=1
    if real=='IndexError': idxerr+=1
print(dict(agree_with_as_is_model=agree, disagree_as_is=dis_unfixed, differs_from_fixed_spec=dis_fixed, indexerrors=idxerr, skipped=skipped))
for e in ex: print(e)
