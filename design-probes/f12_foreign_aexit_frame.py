import types, stackscope
@types.coroutine
def trap(v): return (yield v)
async def helper(tag): await trap("in-helper")
class D:
    async def __aenter__(s): return s
    def __aexit__(s,*e): return helper("notself")
async def f():
    async with D() as d:
        pass
co=f(); co.send(None)
st=stackscope.extract(co)
print([(fr.funcname,[(c.obj,c.is_exiting,c.varname) for c in fr.contexts]) for fr in st.frames])
