import sys, types, gc, warnings
import stackscope
from stackscope import _lowlevel as ll
@types.coroutine
def trap(v): return (yield v)
class M:
    def __init__(s,n): s.n=n
    def __repr__(s): return f"M{s.n}"
    async def __aenter__(s): await trap(("aenter",s.n)); return s
    async def __aexit__(s,*e): await trap(("aexit",s.n)); return True
    def __enter__(s): return s
    def __exit__(s,*e): return False
async def f():
    keep = M(9).__exit__   # local holding an __exit__ bound method (fooling case)
    with M(1) as a:
        async with M(2) as b:
            await trap("body")
            raise KeyError
    await trap("end")
co=f()
ll.set_trickery_enabled(False)
while True:
    try: v=co.send(None)
    except StopIteration: break
    r = ll.contexts_active_in_frame(co.cr_frame, co)
    print(v, [(c.obj, c.is_async, c.is_exiting) for c in r])
ll.set_trickery_enabled(None)
