import dis, sys, os, types, sysconfig, warnings, time, collections
import cert
from cert import *
def is_with_handler(ins,off2idx,t):
    k=off2idx[t]; return ins[k].opname=='PUSH_EXC_INFO' and ins[k+1].opname=='WITH_EXCEPT_START'
def resolve(ins,off2idx,tbl,kcall):
    # kcall: index of CALL 2; back over 3 LOAD_CONST (with possible EXTENDED_ARG)
    k=kcall-1; n=0
    while n<3:
        assert ins[k].opname=='LOAD_CONST'; k-=1; n+=1
        while ins[k].opname=='EXTENDED_ARG': k-=1
    first=k+1   # first LOAD_CONST (or its EXTENDED_ARG)
    while ins[k].opname in('SWAP','NOP'): k-=1     # prologue
    start=k+1
    preds=[]
    if ins[k].opname not in TERMINAL|UNCOND: preds.append(k)
    targets={ins[j].offset for j in range(start,first+1)}
    for j,i in enumerate(ins):
        if (i.opcode in dis.hasjrel or i.opcode in dis.hasjabs) and i.argval in targets: preds.append(j)
    res=set()
    for p in preds:
        for e in chain(tbl,ins[p].offset):
            if is_with_handler(ins,off2idx,e[2]): res.add(e[2]); break
        else: res.add(None)
    return preds,res
stdlib = sysconfig.get_paths()["stdlib"]
stats=collections.Counter(); bad=[]
for root, dirs, files in os.walk(stdlib):
    if "site-packages" in root or "test" in root.split(os.sep): continue
    for fn in files:
        if not fn.endswith(".py"): continue
        p=os.path.join(root,fn)
        try: top=compile(open(p,'rb').read(),p,"exec")
        except Exception: continue
        for co in walk(top):
            try: ins,off2idx,tbl,G=certify(co)
            except Reject: continue
            wb=ll.analyze_with_blocks(co); h2w={}
            for k,st in G.items():
                for e in chain(tbl,ins[k].offset):
                    if e[2] in wb and e[3]<=len(st) and isinstance(st[e[3]-1],tuple) and st[e[3]-1][0]=='E': h2w[e[2]]=st[e[3]-1][1]
            w2h={w:h for h,w in h2w.items()}
            for k,st in G.items():
                i=ins[k]
                if i.opname=='CALL' and i.arg==2 and len(st)>=4 and isinstance(st[-4],tuple) and st[-4][0]=='E':
                    stats['sites']+=1
                    truth=w2h.get(st[-4][1])
                    preds,res=resolve(ins,off2idx,tbl,k)
                    if not preds: stats['no_pred']+=1
                    if len(res)!=1: stats['ambiguous']+=1; bad.append((p.replace(stdlib,''),co.co_name,i.offset,res,truth)); continue
                    (r,)=res
                    if r!=truth: stats['wrong']+=1; bad.append((p.replace(stdlib,''),co.co_name,i.offset,r,truth))
                    else: stats['ok']+=1
print(dict(stats))
for b in bad[:10]: print(b)
