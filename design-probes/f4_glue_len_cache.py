import sys, types
import stackscope, greenlet
log=[]
def mkmod(name):
    m = types.ModuleType(name)
    m._stackscope_install_glue_ = lambda: log.append(name)
    return m
stackscope.extract_since(None)
sys.modules["zz_a"] = mkmod("zz_a")
stackscope.extract_since(None); print("after add a:", log)
del sys.modules["zz_a"]; sys.modules["zz_b"] = mkmod("zz_b")
stackscope.extract_since(None); print("after swap a->b:", log)
sys.modules["zz_c"] = mkmod("zz_c")
stackscope.extract_since(None); print("after add c:", log)

# F8 greenlet
def deep(n, fn):
    if n: return deep(n-1, fn)
    return fn()
main = greenlet.getcurrent()
def gbody():
    return deep(2, lambda: main.switch("sus"))
g = greenlet.greenlet(gbody)
print(deep(1, lambda: g.switch()))
print("from main:", [f.funcname for f in stackscope.extract(g).frames])
def asker():
    return [f.funcname for f in stackscope.extract(g).frames]
g2 = greenlet.greenlet(asker)
print("from sibling child-of-main greenlet:", deep(1, lambda: g2.switch()))
def asker_parented():
    return [f.funcname for f in stackscope.extract(g).frames]
g3 = greenlet.greenlet(asker_parented, parent=g)  # descendant of g
print("from child of g:", g3.switch() if False else "skip")
