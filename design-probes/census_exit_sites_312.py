import sys, os, dis, types, warnings, sysconfig, time
from types import SimpleNamespace as NS
from stackscope import _lowlevel as ll
op = dis.opmap
def walk(co):
    yield co
    for c in co.co_consts:
        if isinstance(c, types.CodeType): yield from walk(c)
stdlib = sysconfig.get_paths()["stdlib"]
n_files = n_codes = n_sites = bad = warned = 0
examples = []
t0=time.time()
for root, dirs, files in os.walk(stdlib):
    if "site-packages" in root or "test" in root.split(os.sep): continue
    for fn in files:
        if not fn.endswith(".py"): continue
        p = os.path.join(root, fn)
        try: top = compile(open(p,'rb').read(), p, "exec")
        except Exception: continue
        n_files += 1
        for co in walk(top):
            n_codes += 1
            code = co.co_code
            try: wb = ll.analyze_with_blocks(co)
            except Exception as e:
                examples.append(("awb-raise", p, co.co_name, repr(e))); continue
            for offs in range(0, len(code), 2):
                if code[offs]==op["CALL"] and code[offs+1]==2 and offs>=6 and all(code[offs-2*k]==op["LOAD_CONST"] for k in (1,2,3)):
                    n_sites += 1
                    with warnings.catch_warnings(record=True) as w:
                        warnings.simplefilter("always")
                        r = ll.currently_exiting_context(NS(f_code=co, f_lasti=offs))
                    if w: warned += 1
                    if r is None or r.cleanup_offset not in wb:
                        bad += 1
                        if len(examples)<6: examples.append((p.replace(stdlib,""), co.co_name, offs, r, bool(w)))
print(dict(files=n_files, codes=n_codes, exit_sites=n_sites, bad=bad, warned=warned, secs=round(time.time()-t0,1)))
for e in examples: print(e)
