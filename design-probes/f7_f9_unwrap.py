import sys, types, warnings, threading, signal
import stackscope
from stackscope import *

# synthetic items: use generators to get frames
def mkframe(name):
    src = f"def {name}():\n    yield\n"
    ns={}; exec(src, ns); g=ns[name](); next(g); return g
gens = {n: mkframe(n) for n in "QPRY"}
fr = {n: g.gi_frame for n,g in gens.items()}

class S:  # unwraps to [Q]
    pass
class Top: pass
unwrap_stackitem.register(S, lambda s: [fr["Q"]])
unwrap_stackitem.register(Top, lambda t: [S(), fr["P"], fr["R"]])
class YI: pass
unwrap_stackitem.register(YI, lambda y: [fr["Y"]])
elaborate_frame.register(fr["Q"].f_code, lambda f, nxt: (YI(), nxt))
elaborate_frame.register(fr["P"].f_code, lambda f, nxt: PRUNE)
st = stackscope.extract(Top(), with_contexts=False)
print("F7:", [f.funcname for f in st.frames], st.leaf, st.error)

# hang probe: unwrap(x) = (x, x)
class X: pass
unwrap_stackitem.register(X, lambda x: (x, x))
def onalarm(*a): raise TimeoutError("hang")
signal.signal(signal.SIGALRM, onalarm); signal.alarm(5)
try:
    st = stackscope.extract(X(), with_contexts=False)
    print("X,X:", st.frames, st.leaf if not isinstance(st.leaf, list) else len(st.leaf), st.error)
except TimeoutError as e:
    print("X,X: HANG (5s)")
signal.alarm(0)
class X1: pass
unwrap_stackitem.register(X1, lambda x: x)
st = stackscope.extract(X1(), with_contexts=False)
print("X1:", st.frames, st.leaf, repr(st.error)[:80])
