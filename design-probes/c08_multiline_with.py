import sys, contextlib, dis
import stackscope
from stackscope import _lowlevel as ll
class M:
    def __enter__(s): return (1,2,3)
    def __exit__(s,*e): pass
class NS: pass
ns = NS(); ns.d = {}
def f():
    with (M() as a,
          M() as b,
          M()):
        with M(
        ) as c, \
          M() as ns.d["k"]:
            yield
        x = [1,2]
        with M() as (p, *q), M(
            ) as ns.attr:
            yield
g = f(); next(g)
print([(c.varname, c.start_line - f.__code__.co_firstlineno) for c in ll.contexts_active_in_frame(g.gi_frame)])
next(g)
print([(c.varname, c.start_line - f.__code__.co_firstlineno) for c in ll.contexts_active_in_frame(g.gi_frame)])
