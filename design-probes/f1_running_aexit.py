import dis, sys, types, warnings
import stackscope
from stackscope import _lowlevel as ll
warnings.simplefilter("error")
res = {}
class M:
    def __init__(s,n): s.n=n
    def __repr__(s): return f"M{s.n}"
    async def __aenter__(s):
        res[("aenter",s.n)] = stackscope.extract_since(s.outer).frames[0].contexts
        return s
    async def __aexit__(s,*e):
        f = stackscope.extract_since(s.outer).frames[0]
        res[("aexit",s.n, e[0] is not None)] = (f.pyframe.f_lasti, f.contexts); return True
    def __enter__(s):
        res[("enter",s.n)] = stackscope.extract_since(s.outer).frames[0].contexts
        return s
    def __exit__(s,*e):
        f = stackscope.extract_since(s.outer).frames[0]
        res[("exit",s.n, e[0] is not None)] = (f.pyframe.f_lasti, f.contexts)
        return True

async def f(m1, m2, boom):
    m1.outer = m2.outer = sys._getframe(0)
    async with m1 as a:
        with m2 as b:
            if boom: raise KeyError
    async with m2 as a:
        if boom: raise KeyError
    m1.outer = m2.outer = None

for boom in (0,1):
    co = f(M(1), M(2), boom)
    try: co.send(None)
    except StopIteration: pass
for k,v in res.items(): print(k, v)
