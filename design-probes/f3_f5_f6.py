import sys, types, warnings, threading
import stackscope
from stackscope import *

# F3 hide_line
def target(): return stackscope.extract_since(sys._getframe(0))
customize(target, hide_line=True)
print("F3 direct:", [ (f.funcname,f.hide_line) for f in target().frames])
@customize(hide_line=True, hide=True)
def target2(): return stackscope.extract_since(sys._getframe(0))
print("F3 deco:", [ (f.funcname,f.hide_line,f.hide) for f in target2().frames])

# F5 origin of callee frames of running coroutine
def callee(co): 
    return stackscope.extract(co)
async def afn(box):
    return callee(box[0])
box=[None]; co=afn(box); box[0]=co
try: co.send(None)
except StopIteration as e: st=e.value
print("F5:", [(f.funcname, type(f.origin).__name__) for f in st.frames])
for f in st.frames:
    if f.origin is not None:
        pass

# F6 insert on innermost frame
class Item: pass
def inner(): return stackscope.extract_since(sys._getframe(0))
def hook(frame, nxt): return (Item(), nxt)
elaborate_frame.register(inner, hook)
try:
    print("F6:", inner())
except Exception as e:
    print("F6 raised:", type(e).__name__, e)
